(* roots: C18 C08 C09 *)
(* C18: the btor2 reader rejects bad input cleanly and only accepts well-typed systems.  Case:
   (case ID (profile debug|release) (origin "..") (muts "..") (text "...") (impl R))
   R = (ok (nodes ..) (sys ..)) | (err) | (panic "file:line" "msg")
   correspondence : Model.parse_text dbg text  vs  R  (three-way class; for Ok the whole system, names included)
   property oracle: R is never a panic (outside the documented-unsupported operators, recognised by
                    the model's PUnsupported), and an accepted system passes the deep type check
                    (every node node_ok = extracted wt, init/next typed like their state, bads and
                    constraints 1-bit, every symbol a declared input or state, distinct names). *)
open Model
open Conv
open C08

let kind_name = function
  | PWrongKind -> "wrong-kind" | PSliceOrder -> "slice-order" | PConstNoValue -> "const-no-value"
  | PWidthMismatch -> "width-mismatch" | PZeroWidth -> "zero-width" | POverflow -> "u32-overflow"
  | PLitWide -> "wide-literal" | PUnsupported -> "unsupported"

let clean (s : string) : string = String.map (fun c -> if c = '\n' || c = '\t' || c = '\r' then ' ' else c) s

let handle (x : Sexp.t) : string =
  let id, fs = case_fields x in
  let dbg = Sexp.atom (Sexp.field1 "profile" fs) = "debug" in
  let text = Sexp.atom (Sexp.field1 "text" fs) in
  let impl = Sexp.field1 "impl" fs in
  let model = parse_text_raw_v code_variant dbg (big_coqstr text) in
  let mclass = match model with POk _ -> "ok" | PErr -> "err" | PPanic k -> "panic(" ^ kind_name k ^ ")" in
  (* kernel cross-check: the three-way class; for Ok the number of renamings and the demoted raw system as a tree when its
     expanded trees have at most 4000 nodes in total *)
  Registry.set_model_lazy (fun () ->
      match model with
      | POk (raw, ren) -> Printf.sprintf "(c18 ok %d %s)" (List.length ren) (C08.sys_text_bounded 4000 (demote raw))
      | _ -> "(c18 " ^ mclass ^ ")");
  match impl with
  | Sexp.List (Sexp.Atom "panic" :: loc :: rest) ->
      let loc = Sexp.atom loc in
      let msg = clean (match rest with m :: _ -> Sexp.atom m | [] -> "") in
      (match model with
       | PPanic PUnsupported ->
           (* outside the property: documented-unsupported operator *)
           Registry.result ~id ~status:"ok" ~key:"unsupported-op" ~detail:("panic at " ^ loc) ()
       | PPanic k when (code_variant = Fix || pre_all (List.map tokenize (split_lines (big_coqstr text))) p_empty) ->
           (* theorem C18_no_crash_outside_known says this cannot happen for the model; for the code it is a new defect *)
           Registry.result ~id ~status:"fail" ~key:("panic-outside-known-class:" ^ kind_name k) ~detail:(Printf.sprintf "parse_str panics at %s (%s) on an input satisfying line_pre everywhere; model: %s" loc msg (kind_name k)) ()
       | PPanic k ->
           Registry.result ~id ~status:"fail" ~key:("panic:" ^ kind_name k) ~detail:(Printf.sprintf "parse_str panics at %s (%s); model: %s" loc msg (kind_name k)) ()
       | _ ->
           Registry.result ~id ~status:"fail" ~key:"panic-unmodelled" ~detail:(Printf.sprintf "parse_str panics at %s (%s); model says %s" loc msg mclass) ())
  | Sexp.List [Sexp.Atom "err"] ->
      (match model with
       | PErr ->
           let pre = pre_all (List.map tokenize (split_lines (big_coqstr text))) p_empty in
           Registry.result ~id ~status:"ok" ~key:"err" ~detail:(if pre then "line_pre holds" else "in KnownClass (no panic)") ()
       | _ -> Registry.result ~id ~status:"diff" ~key:"class" ~detail:("impl err, model " ^ mclass) ())
  | Sexp.List (Sexp.Atom "ok" :: fields) ->
      let (d, s) = impl_ok_of_sexp fields in
      let oracle = check_impl_sys d s in
      (* cross-check the node-wise verdict against the extracted sys_ok on small systems *)
      let sizes = tree_sizes d in
      let total = Array.fold_left (fun a k -> min (1 lsl 40) (a + k)) 0 sizes in
      let small = total < 200000 in
      let oracle =
        match oracle with
        | None when small ->
            let isy = sys_of_isys d s in
            if sys_ok isy then None else Some "sys_ok-false"
        | o -> o
      in
      (match oracle with
       | Some k ->
           (* theorem C18_accepted_outside_known: outside the known classes only the unchecked width of
              bad/constraint lines can make an accepted system fail sys_ok *)
           let ls = List.map tokenize (split_lines (big_coqstr text)) in
           let outside = code_variant = Fix || (pre_all ls p_empty && not (List.exists zero_sort_line ls)) in
           let benign = code_variant = Cur && (k = "bad-not-bv1" || k = "constraint-not-bv1") in
           let key = if outside && not benign then "accept-outside-known-class:" ^ k else "accept:" ^ k in
           Registry.result ~id ~status:"fail" ~key ~detail:("accepted system is not well formed; model " ^ mclass) ()
       | None ->
           (match model with
            | POk (raw, ren) ->
                let msys = demote raw in
                (match compare_sys d s msys ren with
                 | Some what -> Registry.result ~id ~status:"diff" ~key:"system" ~detail:what ()
                 | None ->
                     (* on small systems also compare with the eager definition parse_text *)
                     if small && ren <> [] then
                       (match parse_text_v code_variant dbg (big_coqstr text) with
                        | POk full ->
                            (match compare_sys d s full [] with
                             | None -> Registry.result ~id ~status:"ok" ~key:"ok" ()
                             | Some what -> Registry.result ~id ~status:"diff" ~key:"system-eager" ~detail:what ())
                        | _ -> Registry.result ~id ~status:"diff" ~key:"class-eager" ())
                     else Registry.result ~id ~status:"ok" ~key:"ok" ())
            | _ -> Registry.result ~id ~status:"diff" ~key:"class" ~detail:("impl ok, model " ^ mclass) ()))
  | _ -> raise (Sexp.Parse_error "impl")

let () = Registry.register "C18" handle
