(* C16: btor2 witness text round trip.  Cases (see harness/src/c16.rs):
   (case ID (kind stream) (pm P) (wits W...) (impl R))
   (case ID (kind text)   (pm P) (text "..") (mut "..") (impl R))
   Correspondence: the text printed by the implementation = the text printed by the model
   (Model.wit_print_text); the witnesses read back by the implementation = the witnesses read back
   by the model (Model.wit_parse_text), compared on a canonical dump (recorded array indices as a
   set, array contents at the recorded indices).
   Property oracle (stream cases whose witnesses are all complete, Model.wit_complete): the
   implementation prints, reads back min(n, max(pm,1)) witnesses, and each one is equivalent to
   the original (Model.wit_equiv_b, whose meaning is fixed by theorem C16_equiv_b_meaning). *)
open Model
open Conv

type ('a, 'b) outcome = Good of 'a | Bad of 'b

let rec nat_of_int (i : int) : nat = if i <= 0 then O else S (nat_of_int (i - 1))
let rec int_of_nat = function O -> 0 | S n -> 1 + int_of_nat n

let bits_of_tok (s : string) : bool list =
  if String.length s = 0 || s.[0] <> 'b' then raise (Sexp.Parse_error ("bad bits " ^ s));
  List.init (String.length s - 1) (fun i -> s.[i + 1] = '1')
let tok_of_bits (b : bool list) : string = "b" ^ String.concat "" (List.map (fun x -> if x then "1" else "0") b)
let bits x = bits_of_tok (Sexp.atom x)

let name_of (x : Sexp.t) : char list option =
  match x with
  | Sexp.Str s -> Some (coqstr s)
  | Sexp.Atom "none" -> None
  | _ -> raise (Sexp.Parse_error "bad name")

let field_or_empty k fs = match Sexp.field_opt k fs with Some l -> l | None -> []

(* original array: default + stores in program order; the model keeps the latest store first *)
let array_of (l : Sexp.t list) : array_value * bool list list =
  match l with
  | iw :: _repr :: rest ->
      let default = bits (Sexp.field1 "default" rest) in
      let stores = List.map (function
          | Sexp.List [i; d] -> (bits i, bits d)
          | _ -> raise (Sexp.Parse_error "bad store")) (field_or_empty "stores" rest) in
      let indices = List.map bits (field_or_empty "indices" rest) in
      ({ av_iw = nat_of_int (int_of_string (Sexp.atom iw)); av_default = default; av_entries = List.rev stores }, indices)
  | _ -> raise (Sexp.Parse_error "bad arr")

(* array read back by the implementation: default zero, the recorded entries *)
let parr_of (l : Sexp.t list) : array_value * bool list list =
  match l with
  | iw :: dw :: entries ->
      let es = List.map (function
          | Sexp.List [i; d] -> (bits i, bits d)
          | _ -> raise (Sexp.Parse_error "bad parr entry")) entries in
      ({ av_iw = nat_of_int (int_of_string (Sexp.atom iw));
         av_default = List.init (int_of_string (Sexp.atom dw)) (fun _ -> false);
         av_entries = es }, List.map fst es)
  | _ -> raise (Sexp.Parse_error "bad parr")

let init_of (x : Sexp.t) : init_value =
  match x with
  | Sexp.Atom "none" -> IVNone
  | Sexp.List [Sexp.Atom "bv"; b] -> IVBitVec (bits b)
  | Sexp.List (Sexp.Atom "arr" :: l) -> let (a, idx) = array_of l in IVArray (a, idx)
  | Sexp.List (Sexp.Atom "parr" :: l) -> let (a, idx) = parr_of l in IVArray (a, idx)
  | _ -> raise (Sexp.Parse_error ("bad init value " ^ Sexp.to_string x))

let input_of (x : Sexp.t) : wvalue option =
  match x with
  | Sexp.Atom "none" -> None
  | Sexp.List [Sexp.Atom "bv"; b] -> Some (WVBitVec (bits b))
  | Sexp.List (Sexp.Atom "arr" :: l) -> let (a, _) = array_of l in Some (WVArray a)
  | Sexp.List [Sexp.Atom "varr"; iw; dw] ->
      Some (WVArray { av_iw = nat_of_int (int_of_string (Sexp.atom iw));
                      av_default = List.init (int_of_string (Sexp.atom dw)) (fun _ -> false); av_entries = [] })
  | _ -> raise (Sexp.Parse_error ("bad input value " ^ Sexp.to_string x))

let witness_of (x : Sexp.t) : btor_witness =
  match x with
  | Sexp.List (Sexp.Atom "wit" :: fs) ->
      { w_init = List.map init_of (field_or_empty "init" fs);
        w_init_names = List.map name_of (field_or_empty "init_names" fs);
        w_inputs = List.map (function
            | Sexp.List (Sexp.Atom "f" :: vs) -> List.map input_of vs
            | _ -> raise (Sexp.Parse_error "bad frame")) (field_or_empty "inputs" fs);
        w_input_names = List.map name_of (field_or_empty "input_names" fs);
        w_failed = List.map num (field_or_empty "failed" fs) }
  | _ -> raise (Sexp.Parse_error "bad witness")

(* canonical dump of a witness that was read back (same format as the harness's dump_parsed) *)
let dump_name = function Some n -> Sexp.escape (ocamlstr n) | None -> "none"
let list_of tag items = if items = [] then "(" ^ tag ^ ")" else "(" ^ tag ^ " " ^ String.concat " " items ^ ")"
let dump_parsed (w : btor_witness) : string =
  let init = List.map (function
      | IVBitVec b -> "(bv " ^ tok_of_bits b ^ ")"
      | IVNone -> "none"
      | IVArray (a, indices) ->
          let es = List.sort_uniq compare (List.map (fun i -> (tok_of_bits i, tok_of_bits (av_select a i))) indices) in
          let items = List.map (fun (i, d) -> "(" ^ i ^ " " ^ d ^ ")") es in
          Printf.sprintf "(parr %d %d%s%s)" (int_of_nat a.av_iw) (List.length a.av_default)
            (if items = [] then "" else " ") (String.concat " " items)) w.w_init in
  let inputs = List.map (fun f ->
      list_of "f" (List.map (function
          | Some (WVBitVec b) -> "(bv " ^ tok_of_bits b ^ ")"
          | Some (WVArray a) -> Printf.sprintf "(varr %d %d)" (int_of_nat a.av_iw) (List.length a.av_default)
          | None -> "none") f)) w.w_inputs in
  Printf.sprintf "(wit %s %s %s %s %s)"
    (list_of "failed" (List.map dec_of_n w.w_failed))
    (list_of "init" init)
    (list_of "init_names" (List.map dump_name w.w_init_names))
    (list_of "inputs" inputs)
    (list_of "input_names" (List.map dump_name w.w_input_names))

(* the harness sorts the entries of a parsed array by index; duplicates cannot occur there (dedup) *)
let canon_sexp_string (x : Sexp.t) : string = dump_parsed (witness_of x)

let rec take n l = if n <= 0 then [] else match l with [] -> [] | x :: r -> x :: take (n - 1) r

let big_index (w : btor_witness) : bool =
  List.exists (function IVArray (a, _) -> int_of_nat a.av_iw > 64 | _ -> false) w.w_init

let short s = if String.length s > 300 then String.sub s 0 300 ^ "..." else s

let handle (x : Sexp.t) : string =
  let (id, fs) = case_fields x in
  let kind = Sexp.atom (Sexp.field1 "kind" fs) in
  let pm_i = int_of_string (Sexp.atom (Sexp.field1 "pm" fs)) in
  let pm = n_of_int pm_i in
  let impl = Sexp.field "impl" fs in
  let impl_text = match Sexp.field_opt "text" impl with Some [t] -> Some (Sexp.atom t) | _ -> None in
  let impl_parsed = match Sexp.field_opt "parsed" impl with Some l -> Some l | None -> None in
  let loc k = match Sexp.field_opt k impl with Some [l] -> Some (Sexp.atom l) | _ -> None in
  if Sexp.field_opt "buildpanic" impl <> None then
    Registry.result ~id ~status:"skip" ~key:"value-construction-panics-in-baa" ~detail:"" ()
  else if kind = "stream" then begin
    let ws = List.map witness_of (Sexp.field "wits" fs) in
    let n = List.length ws in
    let all_complete = List.for_all wit_complete ws in
    (* ---- model *)
    let model_text =
      List.fold_left (fun acc w ->
          match acc, wit_print_text w with
          | Some t, WOk t' -> Some (t ^ ocamlstr t')
          | _, _ -> None) (Some "") ws in
    let model_parsed = match model_text with
      | None -> None
      | Some t -> (match wit_parse_text pm (coqstr t) with WOk l -> Some l | WPanic -> None) in
    (* ---- correspondence *)
    let corr =
      match model_text, impl_text with
      | None, None -> if loc "printpanic" <> None then Good "both-print-panic" else Bad "model print panics, implementation result unreadable"
      | None, Some _ -> Bad "model print panics, implementation prints"
      | Some _, None -> Bad ("implementation print panics at " ^ (match loc "printpanic" with Some l -> l | None -> "?") ^ ", model prints")
      | Some mt, Some it when mt <> it -> Bad (Printf.sprintf "printed text differs: impl=%S model=%S" (short it) (short mt))
      | Some _, Some _ ->
          (match model_parsed, impl_parsed with
           | None, None -> if loc "parsepanic" <> None then Good "both-parse-panic" else Bad "implementation returned an io error"
           | None, Some _ -> Bad "model reader panics, implementation reads"
           | Some _, None -> Bad ("implementation reader panics at " ^ (match loc "parsepanic" with Some l -> l | None -> "?") ^ ", model reads")
           | Some ml, Some il ->
               let md = List.map dump_parsed ml and idump = List.map canon_sexp_string il in
               if md = idump then Good "both-read" else
                 Bad (Printf.sprintf "read-back witnesses differ: impl=%s model=%s" (short (String.concat " " idump)) (short (String.concat " " md)))) in
    (* ---- property oracle on the implementation's own results *)
    let expected = min n (max pm_i 1) in
    let oracle =
      if not all_complete then None
      else match impl_text, impl_parsed with
        | None, _ -> Some (Bad ("print-panic@" ^ (match loc "printpanic" with Some l -> l | None -> "?")))
        | Some _, None -> Some (Bad ("parse-panic@" ^ (match loc "parsepanic" with Some l -> l | None -> "ioerr")))
        | Some _, Some il ->
            if List.length il <> expected then Some (Bad (Printf.sprintf "read-%d-of-%d" (List.length il) expected))
            else begin
              let pairs = List.combine (take expected ws) (List.map witness_of il) in
              let bad = List.filter (fun (w, w') -> not (wit_equiv_b w w')) pairs in
              if bad <> [] then Some (Bad "not-equivalent")
              else if n = 1 && pm_i = 1 && Sexp.field_opt "single" impl <> Some [Sexp.Atom "agrees"] then Some (Bad "parse_witness-differs")
              else Some (Good ())
            end in
    (* sanity of the model against its own theorem: complete => reads back [canon w] *)
    let theorem_ok =
      if not all_complete then true
      else match model_parsed with
        | Some ml -> List.map dump_parsed ml = List.map (fun w -> dump_parsed (wit_canon w)) (take expected ws)
        | None -> false in
    let cls = if all_complete then "complete" else if List.exists big_index ws then "big-index" else "outside" in
    if not theorem_ok then Registry.result ~id ~status:"error" ~key:"model-contradicts-theorem" ~detail:"model does not read back canon w on a complete witness" ()
    else match oracle, corr with
      | Some (Bad k), _ -> Registry.result ~id ~status:"fail" ~key:("roundtrip:" ^ k) ~detail:(match corr with Bad d -> d | Good d -> d) ()
      | _, Bad d ->
          (* outside the property's domain; the known baa limitation gets its own key *)
          let baa = (loc "printpanic" = Some "baa-0.19.3/src/bv/borrowed.rs:120" || loc "parsepanic" = Some "baa-0.19.3/src/bv/borrowed.rs:120") in
          if baa && List.exists big_index ws && List.for_all wit_complete_spec ws
          then Registry.result ~id ~status:"fail" ~key:"roundtrip:index-width>64:panic@baa-0.19.3/src/bv/borrowed.rs:120" ~detail:d ()
          else Registry.result ~id ~status:"diff" ~key:("stream:" ^ cls) ~detail:d ()
      | _, Good c ->
          (* big-index witnesses that both sides agree on: a both-panic there is the known finding *)
          let baa = (loc "printpanic" = Some "baa-0.19.3/src/bv/borrowed.rs:120" || loc "parsepanic" = Some "baa-0.19.3/src/bv/borrowed.rs:120") in
          if baa && List.for_all wit_complete_spec ws
          then Registry.result ~id ~status:"fail" ~key:"roundtrip:index-width>64:panic@baa-0.19.3/src/bv/borrowed.rs:120" ~detail:("model agrees: " ^ c) ()
          else Registry.result ~id ~status:"ok" ~key:("stream:" ^ cls ^ ":" ^ c) ~detail:"" ()
  end else begin
    (* kind = text *)
    let text = Sexp.atom (Sexp.field1 "text" fs) in
    let model = wit_parse_text pm (coqstr text) in
    match model, impl_parsed with
    | WPanic, None ->
        if loc "parsepanic" <> None then Registry.result ~id ~status:"ok" ~key:"text:both-panic" ~detail:"" ()
        else Registry.result ~id ~status:"diff" ~key:"text:ioerr" ~detail:"implementation returned an io error" ()
    | WPanic, Some _ -> Registry.result ~id ~status:"diff" ~key:"text:model-panics" ~detail:"model reader panics, implementation reads" ()
    | WOk _, None ->
        Registry.result ~id ~status:"diff" ~key:"text:impl-panics"
          ~detail:("implementation reader panics at " ^ (match loc "parsepanic" with Some l -> l | None -> "?") ^ ", model reads") ()
    | WOk ml, Some il ->
        let md = List.map dump_parsed ml and idump = List.map canon_sexp_string il in
        if md <> idump then
          Registry.result ~id ~status:"diff" ~key:"text:read-differs"
            ~detail:(Printf.sprintf "impl=%s model=%s" (short (String.concat " " idump)) (short (String.concat " " md))) ()
        else begin
          (* print what was read (implementation: its own witnesses; model: its own) *)
          let mre = List.fold_left (fun acc w ->
              match acc, wit_print_text w with Some t, WOk t' -> Some (t ^ ocamlstr t') | _, _ -> None) (Some "") ml in
          let ire = match Sexp.field_opt "reprint" impl with Some [t] -> Some (Sexp.atom t) | _ -> None in
          if mre = ire then Registry.result ~id ~status:"ok" ~key:(Printf.sprintf "text:both-read-%d" (List.length ml)) ~detail:"" ()
          else Registry.result ~id ~status:"diff" ~key:"text:reprint-differs"
              ~detail:(Printf.sprintf "impl=%S model=%S" (match ire with Some t -> short t | None -> "<panic>") (match mre with Some t -> short t | None -> "<panic>")) ()
        end
  end

let () = Registry.register "C16" handle
