(* C10: PDR verdicts.  Case (one per system x configuration):
   (case ID (family F) (class C) (solver S) (gen on|off) (sseed N) (sys ...)
         (impl success|unknown|timeout|(fail (wit (init v..) (inputs (v..)..) (failed k..)))|(err "text")|(panic "loc" "msg")|(crash "st"))
         (sim ok|na-free-state|<reason>|none) (script (queries N) (sessions N) (dupdef "name"|none) (hash H))|(script none) (ms N))

   Oracle: the extracted explicit-state fixpoint [Model.reach_spec] (theorem reach_spec_exact):
     Safe      <-> the implementation must answer success
     Unsafe d  <-> the implementation must answer fail, with a witness that is a real execution
                   (checked here against the extracted Spec/System.v semantics, and in the harness
                   through patronus' interpreter)
   and never err / unknown / panic / timeout / crash.
   Keys are stable class names; the qualifier ":init-reads-input" is structural (some init
   expression mentions an input symbol), "(C04)" marks an inherited defect of the BMC
   encoding (duplicate definition / use before declaration in the SMT script; detected in the recorded
   script, not by the message). *)
open Model
open Conv

let memo : (string, bool * int * verdict option) Hashtbl.t = Hashtbl.create 64

let max_bits = 14

let spec_of (sys_sx : Sexp.t) (sy : sys) : bool * int * verdict option =
  let k = Sexp.to_string sys_sx in
  match Hashtbl.find_opt memo k with
  | Some r -> r
  | None ->
      let cls = fin_class sy in
      let bits = int_of_n (sys_bits sy) in
      let v = if cls && bits <= max_bits then Some (reach_spec sy) else None in
      let r = (cls, bits, v) in
      Hashtbl.replace memo k r; r

let rec int_of_nat = function O -> 0 | S n -> 1 + int_of_nat n

let verdict_str = function
  | Safe -> "safe"
  | Unsafe d -> Printf.sprintf "unsafe@%d" (int_of_nat d)
  | OutOfFuel -> "out-of-fuel"

let sig_of_sym = function BVSymbol (n, w) -> Some (n, w) | _ -> None

(* does some init expression mention an input symbol? *)
let init_reads_input (sy : sys) : bool =
  let ins = input_sigs sy in
  let rec mentions (e : expr) : bool =
    match e with
    | BVSymbol (n, w) -> List.exists (fun (n', w') -> n' = n && w' = w) ins
    | _ -> List.exists mentions (children e) in
  List.exists (fun st -> match st.st_init with Some e -> mentions e | None -> false) sy.s_states

let has_free_state (sy : sys) : bool = List.exists (fun st -> st.st_next = None) sy.s_states

(* replay a witness in the specification semantics; None = fine, Some reason otherwise *)
let check_witness (sy : sys) (wit : Sexp.t list) : string option * int =
  let init = Sexp.field "init" wit in
  let inputs = List.map Sexp.list (Sexp.field "inputs" wit) in
  let steps = List.length inputs in
  if has_free_state sy then (None, steps)   (* a witness cannot carry the later values of such a state *)
  else if steps = 0 then (Some "no-steps", 0)
  else if List.length init <> List.length sy.s_states then (Some "init-length", steps)
  else begin
    let set_all rho syms vals =
      List.fold_left2 (fun rho s v ->
          match sig_of_sym s, v with
          | Some (n, w), Sexp.Atom a when String.length a > 0 && a.[0] = 'b' ->
              if String.length a - 1 <> int_of_n w then failwith "width" else upd_bv rho n w (n_of_tok a)
          | _ -> failwith "value") rho syms vals in
    try
      let rho0 = set_all env0 (List.map (fun st -> st.st_sym) sy.s_states) init in
      let rec go k rho rest =
        match rest with
        | [] -> None
        | inp :: tl ->
            if List.length inp <> List.length sy.s_inputs then Some (Printf.sprintf "inputs-length@%d" k)
            else begin
              let rho = set_all rho sy.s_inputs inp in
              if k = 0 && not (is_initial_b sy rho) then Some "init-equations-violated"
              else if not (constraints_hold sy rho) then Some (Printf.sprintf "constraint-violated@%d" k)
              else if tl = [] then (if some_bad sy rho then None else Some "no-bad-at-last-step")
              else
                (* next inputs are written over the successor valuation at the next iteration;
                   every state has a next function here, so nothing else is free *)
                go (k + 1) (next_env sy rho rho) tl
            end in
      (go 0 rho0 inputs, steps)
    with Failure m -> (Some ("malformed-" ^ m), steps)
  end

let contains (s : string) (sub : string) : bool =
  let n = String.length s and m = String.length sub in
  let rec go i = i + m <= n && (String.sub s i m = sub || go (i + 1)) in
  m = 0 || go 0

(* ---------------------------------------------------------------------------------------------
   State-level correspondence: the extracted CONCRETE model of pdr.rs (Model/PdrImpl.v) is run with
   the real solver's answers (recorded by the cfg(patronus_verif) trace hook) as its oracle; the
   sequence of queries it asks, the cubes it blocks, the frames it adds and its verdict must be
   those of the real run, event by event.  Cubes are compared as sets (pdr.rs builds generalised
   cubes by iterating hash sets).  *)
type tlit = string * int * bool
type tans = TSat of tlit list | TUnsat of tlit list | TUnknown
type tev =
  | TQ of string * frame_id * bool * tlit list * tlit list * tans
  | TBlock of frame_id * tlit list
  | TAdd of int

let rec nat_of_int (i : int) : nat = if i <= 0 then O else S (nat_of_int (i - 1))

let parse_lit = function
  | Sexp.List [Sexp.Atom "l"; n; b; p] -> (Sexp.atom n, int_of_string (Sexp.atom b), Sexp.atom p = "1")
  | x -> raise (Sexp.Parse_error ("bad literal " ^ Sexp.to_string x))
let parse_frame a = match Sexp.atom a with
  | "inf" -> FInf | "0" -> FInit | k -> FFinite (nat_of_int (int_of_string k))
let parse_tev = function
  | Sexp.List [Sexp.Atom "q"; k; f; neg; Sexp.List (Sexp.Atom "fixed" :: fx); Sexp.List (Sexp.Atom "sel" :: sl); ans] ->
      let a = match ans with
        | Sexp.List (Sexp.Atom "sat" :: m) -> TSat (List.map parse_lit m)
        | Sexp.List (Sexp.Atom "unsat" :: c) -> TUnsat (List.map parse_lit c)
        | _ -> TUnknown in
      TQ (Sexp.atom k, parse_frame f, Sexp.atom neg = "1", List.map parse_lit fx, List.map parse_lit sl, a)
  | Sexp.List (Sexp.Atom "block" :: f :: c) -> TBlock (parse_frame f, List.map parse_lit c)
  | Sexp.List [Sexp.Atom "addframe"; a] -> TAdd (int_of_string (Sexp.atom a))
  | x -> raise (Sexp.Parse_error ("bad trace event " ^ Sexp.to_string x))

let kind_name = function KBad -> "bad" | KRelInd -> "relind" | KGenCheck -> "gencheck" | KGenFix -> "genfix" | KInf -> "inf"
let set_eq (a : tlit list) (b : tlit list) = List.sort_uniq compare a = List.sort_uniq compare b
let frame_str = function FInit -> "0" | FFinite k -> string_of_int (int_of_nat k) | FInf -> "inf"

(* ---------------------------------------------------------------------------------------------
   The oracle hypothesis, TESTED: the theorems about the concrete model assume that the solver answers
   truthfully for the query the MODEL asks ([truthful] of Proofs/PdrImplProofs.v).  The replay above
   takes the recorded answers on trust; a defect of pdr.rs outside the logged events (a wrong permanent
   assertion, a wrong assumption literal, a wrong encoding of a frame) makes the real solver answer a
   DIFFERENT query than the one the model has in mind.  For systems with few states every recorded
   answer is therefore checked with the extracted [answer_ok] (theorem C10_pdr_answer_check_exact:
   it decides [truthful]) over the explicit state-level semantics of Model/PdrSys.v (sys_bad0,
   sys_step0, sys_trans, sys_bad; states = valuations of the state symbols).  *)
type sem = {
  n_states : int;
  holds : tlit -> int -> bool;
  state_of_cube : tlit list -> int option;
  s_bad0 : int -> bool; s_step0 : int -> int -> bool; s_trans : int -> int -> bool; s_bad : int -> bool;
}

let sem_memo : (string, sem option) Hashtbl.t = Hashtbl.create 64
(* bound on 2 * state bits + 2 * input bits (the cost of filling the transition matrix) *)
let truth_bits_limit = ref 16

let sem_of (key : string) (sy : sys) (cls : bool) : sem option =
  match Hashtbl.find_opt sem_memo key with
  | Some r -> r
  | None ->
      let r =
        if not cls then None
        else begin
          let sb = int_of_n (sbits sy) in
          let ib = int_of_n (sys_bits sy) - sb in
          if 2 * sb + 2 * ib > !truth_bits_limit then None
          else begin
            let n = 1 lsl sb in
            let sigs = state_sigs sy in
            let cube_of (s : int) : tlit list =
              let rho = Model.mk_env sy (n_of_int s) N0 in
              List.concat_map (fun (nm, w) ->
                  let wi = int_of_n w in
                  let bits = bits_of_n wi (rho.rho_bv nm w) in
                  List.init wi (fun b -> (ocamlstr nm, b, bits.[wi - 1 - b] = '1'))) sigs in
            let cubes = Array.init n cube_of in
            let tbls = Array.map (fun c -> let h = Hashtbl.create 16 in List.iter (fun l -> Hashtbl.replace h l ()) c; h) cubes in
            let by_cube = Hashtbl.create n in
            Array.iteri (fun s c -> Hashtbl.replace by_cube (List.sort compare c) s) cubes;
            let memo1 f = let a = Array.make n None in
              fun s -> (match a.(s) with Some b -> b | None -> let b = f (n_of_int s) in a.(s) <- Some b; b) in
            let memo2 f = let a = Array.make (n * n) None in
              fun s t -> (match a.(s * n + t) with Some b -> b | None -> let b = f (n_of_int s) (n_of_int t) in a.(s * n + t) <- Some b; b) in
            Some { n_states = n;
                   holds = (fun l s -> Hashtbl.mem tbls.(s) l);
                   state_of_cube = (fun c -> Hashtbl.find_opt by_cube (List.sort_uniq compare c));
                   s_bad0 = memo1 (sys_bad0 sy); s_step0 = memo2 (sys_step0 sy);
                   s_trans = memo2 (sys_trans sy); s_bad = memo1 (sys_bad sy) }
          end
        end in
      Hashtbl.replace sem_memo key r; r

(* the first recorded answer that is not truthful for the model's query, and the number of answers checked *)
let check_answers (sm : sem) (log : (tlit, tlit list, string) event list) : string option * int =
  let states = List.init sm.n_states (fun s -> s) in
  let ok q a = answer_ok sm.holds sm.s_bad0 sm.s_step0 sm.s_trans sm.s_bad states (fun a b -> a = b) q a in
  let rec go i n = function
    | [] -> (None, n)
    | EvQuery (q, a) :: rest ->
        let where = Printf.sprintf "query %d (%s, frame %s)" i (kind_name q.q_kind) (frame_str q.q_frame) in
        (match a with
         | ASat [] ->
             (* the hook has no model for this call (fix_gen_cube's queries, pushing, the infinite frame):
                sat must at least be possible *)
             if List.exists (fun st -> ok q (ASat st)) states then go (i + 1) (n + 1) rest
             else (Some (Printf.sprintf "untruthful-answer: %s answered sat, but the query the model of pdr.rs asks there has no model" where), n)
         | ASat m ->
             (match sm.state_of_cube m with
              | None -> (Some (Printf.sprintf "untruthful-answer: %s: the model returned is not the cube of a state" where), n)
              | Some st ->
                  if ok q (ASat st) then go (i + 1) (n + 1) rest
                  else (Some (Printf.sprintf "untruthful-answer: %s answered sat, but state %d is not a model of the query the model of pdr.rs asks there" where st), n))
         | AUnsat core ->
             if ok q (AUnsat core) then go (i + 1) (n + 1) rest
             else (Some (Printf.sprintf "untruthful-answer: %s answered unsat with a core of %d literal(s), but the query the model of pdr.rs asks there (restricted to that core) has a model" where (List.length core)), n)
         | AUnknown | AErr _ -> go (i + 1) n rest)
    | _ :: rest -> go i n rest in
  go 0 0 log

(* None = the model reproduces the run; Some reason otherwise.  Second component: statistics.
   [inject_err]: the real run was hit by an injected solver error (property C15): the recorded trace stops
   before the failing call; the oracle answers [AErr] at the first query that was not recorded, the BMC
   oracle fails too (the fault may have hit the fallback), and the model must stop with that error right
   there, having produced exactly the recorded events. *)
let replay_trace (evs : tev list) ~(gen_on : bool) ~(has_bads : bool) ~(impl : string) ~(inject_err : bool) ~(tail_unknown : bool) ~(sem : sem option)
  : string option * (int * int * int * int) =
  let answers = Array.of_list (List.filter_map (function TQ (_, _, _, _, _, a) -> Some a | _ -> None) evs) in
  let exhausted = ref false in
  let solve (n : nat) (_ : tlit query) : (tlit, tlit list, string) answer =
    let i = int_of_nat n in
    if i < Array.length answers then
      (match answers.(i) with TSat m -> ASat m | TUnsat c -> AUnsat c | TUnknown -> AUnknown)
    else if inject_err && i = Array.length answers then AErr "injected"
    (* an injected `unknown` at one of fix_gen_cube's queries: pdr.rs returns before the hook logs the query *)
    else if tail_unknown && i = Array.length answers then AUnknown
    else (exhausted := true; AUnknown) in
  let bmc = if inject_err then BmcErr "injected" else if impl = "fail" then BmcFail () else BmcOther in
  let fuel = nat_of_int 5000 in
  let r = pdr (fun a b -> a = b) (fun m -> m) solve (fun _ -> None) O gen_on has_bads bmc fuel fuel in
  let nq = Array.length answers in
  let nb = List.length (List.filter (function TBlock _ -> true | _ -> false) evs) in
  let nf = List.length (List.filter (function TAdd _ -> true | _ -> false) evs) in
  let stats = (nq, nb, nf, 0) in
  let is_err_event = function
    | EvQuery (_, AErr _) | EvCmdFail (_, _) | EvBmcErr _ -> true
    | _ -> false in
  (* the events of the model's run (oldest first) and its outcome *)
  let outcome =
    match r with
    | Ok (v, st) -> Some (List.rev st.p_log, (match v with VSuccess -> "success" | VFail _ -> "fail" | VUnknown -> "unknown"))
    | Err (e, log) ->
        let l = List.rev log in
        let l = List.filter (fun ev -> not (is_err_event ev)) l in
        (* pdr.rs returns from init_steps_into on `unknown` before the hook logs that query *)
        let l = match e with
          | EUnknown (KGenCheck | KGenFix) -> (match List.rev l with EvQuery (_, AUnknown) :: r -> List.rev r | _ -> l)
          | _ -> l in
        Some (l, "err")
    | Panic _ | Fuel -> None in
  match outcome with
  | None -> ((match r with Panic n -> Some (Printf.sprintf "model-panic:%d" (int_of_nat n)) | _ -> Some "model-out-of-fuel"), stats)
  | Some (mlog, mv) ->
      let rec cmp i ml tl =
        match ml, tl with
        | [], [] -> None
        | [], _ -> Some (Printf.sprintf "event %d: the real run continues, the model stopped" i)
        | _, [] -> Some (Printf.sprintf "event %d: the model continues, the real run stopped" i)
        | EvQuery (q, _) :: mr, TQ (k, f, neg, fx, sl, _) :: tr ->
            if kind_name q.q_kind <> k then Some (Printf.sprintf "event %d: query kind %s vs %s" i (kind_name q.q_kind) k)
            else if q.q_frame <> f then Some (Printf.sprintf "event %d (%s): frame %s vs %s" i k (frame_str q.q_frame) (frame_str f))
            else if (q.q_neg <> None) <> neg then Some (Printf.sprintf "event %d (%s): negated cube assumed differs" i k)
            else if not (set_eq q.q_fixed fx) then Some (Printf.sprintf "event %d (%s): TO_STEP conjunction differs" i k)
            else if not (set_eq q.q_sel sl) then Some (Printf.sprintf "event %d (%s): TO_STEP literals differ" i k)
            else if (match q.q_neg with Some c -> not (set_eq c (if k = "inf" then fx else sl)) | None -> false)
            then Some (Printf.sprintf "event %d (%s): negated cube differs" i k)
            else cmp (i + 1) mr tr
        | EvBlock (f, c) :: mr, TBlock (f', c') :: tr ->
            if f <> f' then Some (Printf.sprintf "event %d: blocked at frame %s vs %s" i (frame_str f) (frame_str f'))
            else if not (set_eq c c') then Some (Printf.sprintf "event %d: blocked cube differs at frame %s" i (frame_str f))
            else cmp (i + 1) mr tr
        | EvAddFrame a :: mr, TAdd a' :: tr ->
            if int_of_nat a <> a' then Some (Printf.sprintf "event %d: activation literal id of the new frame %d vs %d" i (int_of_nat a) a')
            else cmp (i + 1) mr tr
        | _, _ -> Some (Printf.sprintf "event %d: different kinds of events" i) in
      (match cmp 0 mlog evs with
       | Some m -> (Some m, stats)
       | None ->
           if !exhausted then (Some "the model asked more queries than the real run", stats)
           else if mv <> impl then (Some (Printf.sprintf "verdict %s vs %s" mv impl), stats)
           else (match sem with
                 | None -> (None, stats)
                 | Some sm -> let (r, n) = check_answers sm mlog in (r, (nq, nb, nf, n))))

let handle (x : Sexp.t) : string =
  let id, fs = case_fields x in
  let sys_sx = List.find (function Sexp.List (Sexp.Atom "sys" :: _) -> true | _ -> false) fs in
  let sy = sys_of_sexp sys_sx in
  let impl = Sexp.field1 "impl" fs in
  let sim = match Sexp.field_opt "sim" fs with Some [s] -> Sexp.atom s | _ -> "none" in
  let cfg = Printf.sprintf "%s/gen-%s/seed%s" (Sexp.atom (Sexp.field1 "solver" fs)) (Sexp.atom (Sexp.field1 "gen" fs)) (Sexp.atom (Sexp.field1 "sseed" fs)) in
  let dupdef = match Sexp.field_opt "script" fs with
    | Some l -> (match Sexp.field_opt "dupdef" l with Some [Sexp.Str n] -> Some n | _ -> None)
    | None -> None in
  let usebefore = match Sexp.field_opt "script" fs with
    | Some l -> (match Sexp.field_opt "usebefore" l with Some [Sexp.Str n] -> Some n | _ -> None)
    | None -> None in
  let (cls, bits, spec) = spec_of sys_sx sy in
  let qual = if init_reads_input sy then ":init-reads-input" else "" in
  match spec with
  | None ->
      Registry.result ~id ~status:"skip" ~key:(if cls then "too-large" else "outside-class")
        ~detail:(Printf.sprintf "fin_class=%b bits=%d" cls bits) ()
  | Some OutOfFuel ->
      Registry.result ~id ~status:"error" ~key:"spec-out-of-fuel" ~detail:"reach_spec returned OutOfFuel (contradicts reach_spec_total)" ()
  | Some v ->
      let vs = verdict_str v in
      let clean s = String.map (fun c -> if c = '\n' || c = '\t' || c = '\r' then ' ' else c) s in
      let impl_name = (match impl with Sexp.Atom a -> a | Sexp.List (Sexp.Atom a :: _) -> a | _ -> "?") in
      (* fault injection (property C15 on the real pdr): (fault unknown|error N) (faulthit 0|1) *)
      let fault = match Sexp.field_opt "fault" fs with Some (k :: _) -> Some (Sexp.atom k) | _ -> None in
      let fault_hit = (match Sexp.field_opt "faulthit" fs with Some [h] -> Sexp.atom h = "1" | _ -> false) in
      let inject_err = fault = Some "error" && fault_hit in
      let res status key detail =
        (* the state-level correspondence is evaluated on the runs whose verdict is right *)
        let (status, key, detail) =
          if status <> "ok" then (status, key, detail)
          else match Sexp.field_opt "trace" fs with
            | Some (Sexp.Atom "on" :: evs) ->
                let gen_on = Sexp.atom (Sexp.field1 "gen" fs) = "on" in
                (match replay_trace (List.map parse_tev evs) ~gen_on ~has_bads:(sy.s_bads <> []) ~impl:impl_name ~inject_err ~tail_unknown:(fault = Some "unknown" && fault_hit && impl_name = "err")
                         ~sem:(sem_of (Sexp.to_string sys_sx) sy cls) with
                 | (None, (nq, nb, nf, na)) -> ("ok", key, Printf.sprintf "%s trace=ok queries=%d blocks=%d frames=%d answers_checked=%d" detail nq nb nf na)
                 | (Some m, _) ->
                     let cls = if String.length m >= 5 && String.sub m 0 5 = "event" then "event-mismatch"
                       else if String.length m >= 9 && String.sub m 0 9 = "the model" then "extra-queries"
                       else if String.length m >= 7 && String.sub m 0 7 = "verdict" then "verdict-mismatch"
                       else List.hd (String.split_on_char ':' (List.hd (String.split_on_char ' ' m))) in
                     ("diff", "pdr-model:" ^ cls, "concrete model vs real run: " ^ m))
            | _ -> (status, key, detail ^ " trace=off") in
        Registry.result ~id ~status ~key:(clean key) ~detail:(clean (Printf.sprintf "spec=%s impl=%s cfg=%s %s" vs impl_name cfg detail)) () in
      (match impl, v with
       (* ---- runs with an injected solver fault (C15 on the real pdr) *)
       | Sexp.List (Sexp.Atom "err" :: Sexp.Str msg :: _), _ when inject_err && contains msg "injected" ->
           res "ok" "fault:error-propagated" "the injected solver error is the result"
       | (Sexp.Atom ("success" | "unknown") | Sexp.List (Sexp.Atom "fail" :: _)), _ when inject_err ->
           res "fail" "pdr:verdict-after-injected-error" "a solver call returned an error and pdr still produced a verdict"
       | Sexp.List (Sexp.Atom "err" :: Sexp.Str msg :: _), _ when fault = Some "unknown" && fault_hit && contains msg "unknown query" ->
           res "ok" "fault:unknown-is-error" "the injected unknown answer ends the run with an error"
       | Sexp.Atom "unknown", _ when fault = Some "unknown" && fault_hit ->
           res "ok" "fault:unknown-verdict" "the injected unknown answer gives an Unknown verdict"
       (* ---- *)
       | Sexp.Atom "success", Safe -> res "ok" "safe" ""
       | Sexp.Atom "success", Unsafe _ -> res "fail" ("pdr:success-on-unsafe" ^ qual) "PDR answered success although a bad state is reachable"
       | Sexp.List [Sexp.Atom "fail"; Sexp.List (Sexp.Atom "wit" :: wit)], Safe ->
           res "fail" ("pdr:fail-on-safe" ^ qual) "PDR answered fail although no bad state is reachable"
       | Sexp.List [Sexp.Atom "fail"; Sexp.List (Sexp.Atom "wit" :: wit)], Unsafe d ->
           let (bad, steps) = check_witness sy wit in
           (match bad with
            | Some reason -> res "fail" ("pdr:bad-witness:" ^ (List.hd (String.split_on_char '@' reason))) ("witness is not an execution: " ^ reason)
            | None ->
                if sim <> "ok" && sim <> "na-free-state" then
                  res "fail" ("pdr:witness-sim:" ^ (List.hd (String.split_on_char '@' sim))) ("interpreter replay: " ^ sim)
                else if (not (has_free_state sy)) && steps <> int_of_nat d + 1 then
                  res "diff" "pdr:witness-not-shortest" (Printf.sprintf "witness has %d steps, least depth is %d" steps (int_of_nat d))
                else res "ok" "unsafe" "")
       | Sexp.List (Sexp.Atom "err" :: Sexp.Str msg :: _), _ ->
           let cls =
             if dupdef <> None then "duplicate-definition(C04)"
             else if usebefore <> None then "use-before-declare(C04)"
             else if contains msg "original cube intersects with init" then "cube-intersects-init"
             else if contains msg "unknown" then "solver-unknown"
             else "other" in
           res "fail" ("pdr:err:" ^ cls ^ qual) ("error instead of a verdict: " ^ msg ^ (match dupdef with Some n -> " [script defines " ^ n ^ " twice]" | None -> "")
                                      ^ (match usebefore with Some n -> " [script uses " ^ n ^ " before declaring it]" | None -> ""))
       | Sexp.List (Sexp.Atom "panic" :: Sexp.Str loc :: rest), _ ->
           res "fail" ("pdr:panic@" ^ loc ^ qual) ("panic instead of a verdict: " ^ (match rest with Sexp.Str m :: _ -> m | _ -> ""))
       | Sexp.Atom "unknown", Unsafe d when int_of_nat d > 1000 ->
           (* recorded finding: the shortest counterexample is deeper than MAX_FRAMES = 1000 (theorem C10_pdr_model_deep_unknown_sys) *)
           res "fail" "pdr:unknown:frame-limit" "Unknown instead of Fail: the shortest counterexample needs more than MAX_FRAMES = 1000 frames"
       | Sexp.Atom "unknown", _ -> res "fail" ("pdr:unknown" ^ qual) "Unknown instead of a verdict"
       | Sexp.Atom "timeout", _ -> res "fail" ("pdr:timeout" ^ qual) "no answer within the watchdog"
       | Sexp.List (Sexp.Atom "crash" :: _), _ -> res "fail" ("pdr:crash" ^ qual) ("worker died: " ^ Sexp.to_string impl)
       | _, _ -> Registry.result ~id ~status:"error" ~key:"bad-impl-field" ~detail:(Sexp.to_string impl) ())

let () = Registry.register "C10" handle
