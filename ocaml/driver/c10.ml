(* C10: PDR verdicts.  Case (one per system x configuration):
   (case ID (family F) (class C) (solver S) (gen on|off) (sseed N) (sys ...)
         (impl success|unknown|timeout|(fail (wit (init v..) (inputs (v..)..) (failed k..)))|(err "text")|(panic "loc" "msg")|(crash "st"))
         (sim ok|na-free-state|<reason>|none) (script (queries N) (sessions N) (dupdef "name"|none) (hash H))|(script none) (ms N))

   Oracle: the extracted explicit-state fixpoint [Model.reach_spec] (theorem reach_spec_exact):
     Safe      <-> the implementation must answer success
     Unsafe d  <-> the implementation must answer fail, with a witness that is a real execution
                   (checked here against the extracted Spec/System.v semantics, and in the harness
                   through patronus' interpreter)
   and never err / unknown / panic / timeout / crash.
   Keys are stable class names; the qualifier ":init-reads-input" is structural (some init
   expression mentions an input symbol), "(C04)" marks an inherited defect of the BMC
   encoding (duplicate definition / use before declaration in the SMT script; detected in the recorded
   script, not by the message). *)
open Model
open Conv

let memo : (string, bool * int * verdict option) Hashtbl.t = Hashtbl.create 64

let max_bits = 14

let spec_of (sys_sx : Sexp.t) (sy : sys) : bool * int * verdict option =
  let k = Sexp.to_string sys_sx in
  match Hashtbl.find_opt memo k with
  | Some r -> r
  | None ->
      let cls = fin_class sy in
      let bits = int_of_n (sys_bits sy) in
      let v = if cls && bits <= max_bits then Some (reach_spec sy) else None in
      let r = (cls, bits, v) in
      Hashtbl.replace memo k r; r

let rec int_of_nat = function O -> 0 | S n -> 1 + int_of_nat n

let verdict_str = function
  | Safe -> "safe"
  | Unsafe d -> Printf.sprintf "unsafe@%d" (int_of_nat d)
  | OutOfFuel -> "out-of-fuel"

let sig_of_sym = function BVSymbol (n, w) -> Some (n, w) | _ -> None

(* does some init expression mention an input symbol? *)
let init_reads_input (sy : sys) : bool =
  let ins = input_sigs sy in
  let rec mentions (e : expr) : bool =
    match e with
    | BVSymbol (n, w) -> List.exists (fun (n', w') -> n' = n && w' = w) ins
    | _ -> List.exists mentions (children e) in
  List.exists (fun st -> match st.st_init with Some e -> mentions e | None -> false) sy.s_states

let has_free_state (sy : sys) : bool = List.exists (fun st -> st.st_next = None) sy.s_states

(* replay a witness in the specification semantics; None = fine, Some reason otherwise *)
let check_witness (sy : sys) (wit : Sexp.t list) : string option * int =
  let init = Sexp.field "init" wit in
  let inputs = List.map Sexp.list (Sexp.field "inputs" wit) in
  let steps = List.length inputs in
  if has_free_state sy then (None, steps)   (* a witness cannot carry the later values of such a state *)
  else if steps = 0 then (Some "no-steps", 0)
  else if List.length init <> List.length sy.s_states then (Some "init-length", steps)
  else begin
    let set_all rho syms vals =
      List.fold_left2 (fun rho s v ->
          match sig_of_sym s, v with
          | Some (n, w), Sexp.Atom a when String.length a > 0 && a.[0] = 'b' ->
              if String.length a - 1 <> int_of_n w then failwith "width" else upd_bv rho n w (n_of_tok a)
          | _ -> failwith "value") rho syms vals in
    try
      let rho0 = set_all env0 (List.map (fun st -> st.st_sym) sy.s_states) init in
      let rec go k rho rest =
        match rest with
        | [] -> None
        | inp :: tl ->
            if List.length inp <> List.length sy.s_inputs then Some (Printf.sprintf "inputs-length@%d" k)
            else begin
              let rho = set_all rho sy.s_inputs inp in
              if k = 0 && not (is_initial_b sy rho) then Some "init-equations-violated"
              else if not (constraints_hold sy rho) then Some (Printf.sprintf "constraint-violated@%d" k)
              else if tl = [] then (if some_bad sy rho then None else Some "no-bad-at-last-step")
              else
                (* next inputs are written over the successor valuation at the next iteration;
                   every state has a next function here, so nothing else is free *)
                go (k + 1) (next_env sy rho rho) tl
            end in
      (go 0 rho0 inputs, steps)
    with Failure m -> (Some ("malformed-" ^ m), steps)
  end

let contains (s : string) (sub : string) : bool =
  let n = String.length s and m = String.length sub in
  let rec go i = i + m <= n && (String.sub s i m = sub || go (i + 1)) in
  m = 0 || go 0

let handle (x : Sexp.t) : string =
  let id, fs = case_fields x in
  let sys_sx = List.find (function Sexp.List (Sexp.Atom "sys" :: _) -> true | _ -> false) fs in
  let sy = sys_of_sexp sys_sx in
  let impl = Sexp.field1 "impl" fs in
  let sim = match Sexp.field_opt "sim" fs with Some [s] -> Sexp.atom s | _ -> "none" in
  let cfg = Printf.sprintf "%s/gen-%s/seed%s" (Sexp.atom (Sexp.field1 "solver" fs)) (Sexp.atom (Sexp.field1 "gen" fs)) (Sexp.atom (Sexp.field1 "sseed" fs)) in
  let dupdef = match Sexp.field_opt "script" fs with
    | Some l -> (match Sexp.field_opt "dupdef" l with Some [Sexp.Str n] -> Some n | _ -> None)
    | None -> None in
  let usebefore = match Sexp.field_opt "script" fs with
    | Some l -> (match Sexp.field_opt "usebefore" l with Some [Sexp.Str n] -> Some n | _ -> None)
    | None -> None in
  let (cls, bits, spec) = spec_of sys_sx sy in
  let qual = if init_reads_input sy then ":init-reads-input" else "" in
  match spec with
  | None ->
      Registry.result ~id ~status:"skip" ~key:(if cls then "too-large" else "outside-class")
        ~detail:(Printf.sprintf "fin_class=%b bits=%d" cls bits) ()
  | Some OutOfFuel ->
      Registry.result ~id ~status:"error" ~key:"spec-out-of-fuel" ~detail:"reach_spec returned OutOfFuel (contradicts reach_spec_total)" ()
  | Some v ->
      let vs = verdict_str v in
      let clean s = String.map (fun c -> if c = '\n' || c = '\t' || c = '\r' then ' ' else c) s in
      let res status key detail = Registry.result ~id ~status ~key:(clean key) ~detail:(clean (Printf.sprintf "spec=%s impl=%s cfg=%s %s" vs
          (match impl with Sexp.Atom a -> a | Sexp.List (Sexp.Atom a :: _) -> a | _ -> "?") cfg detail)) () in
      (match impl, v with
       | Sexp.Atom "success", Safe -> res "ok" "safe" ""
       | Sexp.Atom "success", Unsafe _ -> res "fail" ("pdr:success-on-unsafe" ^ qual) "PDR answered success although a bad state is reachable"
       | Sexp.List [Sexp.Atom "fail"; Sexp.List (Sexp.Atom "wit" :: wit)], Safe ->
           res "fail" ("pdr:fail-on-safe" ^ qual) "PDR answered fail although no bad state is reachable"
       | Sexp.List [Sexp.Atom "fail"; Sexp.List (Sexp.Atom "wit" :: wit)], Unsafe d ->
           let (bad, steps) = check_witness sy wit in
           (match bad with
            | Some reason -> res "fail" ("pdr:bad-witness:" ^ (List.hd (String.split_on_char '@' reason))) ("witness is not an execution: " ^ reason)
            | None ->
                if sim <> "ok" && sim <> "na-free-state" then
                  res "fail" ("pdr:witness-sim:" ^ (List.hd (String.split_on_char '@' sim))) ("interpreter replay: " ^ sim)
                else if (not (has_free_state sy)) && steps <> int_of_nat d + 1 then
                  res "diff" "pdr:witness-not-shortest" (Printf.sprintf "witness has %d steps, least depth is %d" steps (int_of_nat d))
                else res "ok" "unsafe" "")
       | Sexp.List (Sexp.Atom "err" :: Sexp.Str msg :: _), _ ->
           let cls =
             if dupdef <> None then "duplicate-definition(C04)"
             else if usebefore <> None then "use-before-declare(C04)"
             else if contains msg "original cube intersects with init" then "cube-intersects-init"
             else if contains msg "unknown" then "solver-unknown"
             else "other" in
           res "fail" ("pdr:err:" ^ cls ^ qual) ("error instead of a verdict: " ^ msg ^ (match dupdef with Some n -> " [script defines " ^ n ^ " twice]" | None -> "")
                                      ^ (match usebefore with Some n -> " [script uses " ^ n ^ " before declaring it]" | None -> ""))
       | Sexp.List (Sexp.Atom "panic" :: Sexp.Str loc :: rest), _ ->
           res "fail" ("pdr:panic@" ^ loc ^ qual) ("panic instead of a verdict: " ^ (match rest with Sexp.Str m :: _ -> m | _ -> ""))
       | Sexp.Atom "unknown", _ -> res "fail" ("pdr:unknown" ^ qual) "Unknown instead of a verdict"
       | Sexp.Atom "timeout", _ -> res "fail" ("pdr:timeout" ^ qual) "no answer within the watchdog"
       | Sexp.List (Sexp.Atom "crash" :: _), _ -> res "fail" ("pdr:crash" ^ qual) ("worker died: " ^ Sexp.to_string impl)
       | _, _ -> Registry.result ~id ~status:"error" ~key:"bad-impl-field" ~detail:(Sexp.to_string impl) ())

let () = Registry.register "C10" handle
