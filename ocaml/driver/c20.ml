(* C20: value summaries.  Case (see harness/src/c20.rs):
   (case ID (debug 0|1) (steps STEP...) (terms E...) (impl R...) (panicloc "..") (panicmsg ".."))

   Correspondence: the extracted model [Model.vstep] (the code as it is: fixed = false) is run on the
   same steps; per step the entries are compared as multisets of (truth table, value).  The one
   implementation detail the model is parametric in - the order of BDD node numbers used by the
   sort() in apply_bin_op - is read off the implementation's dump ([rank]).

   Property oracle (on the implementation's results only, independent of the model), for all 2^n
   valuations of the terminals:
     partition   exactly one guard of every summary is true                      (C20_partition_inv)
     den         the selected value is the operation applied to the selected values of the
                 operands (bin, ite via [Model.bsem] of the selected condition, coalesce, import)
     guard       the guard of a boolean expression is true iff [Model.bsem] (and, when all
                 terminals are 1-bit symbols, iff [Model.ebv] = 1)
     no panic    on steps inside the property's domain (boolean, well-typed where a guard is built) *)
open Model
open Conv

(* Which variant of patronus-dse the implementation is compared with (model = Model.vstep repairs debug coalesce_fixed):
   coalesce_fixed    /repo e25c4dc `delete_list.sort_unstable()` in coalesce_entries            (committed)
   repair_traversal  patches/C20-1  bottom_up_multi_pat remembers how many children it pushed
   repair_closures   patches/C20-2  expr_to_guard descends into boolean connectives only
   repair_assert     patches/C20-3  apply_bin_op's second debug_assert accepts false-guard leftovers
   FLIP a constant to true when the corresponding patch is committed in /repo, and turn the matching
   `finding:` line of known_findings.txt into a `fixed:` line (see patches/C20-README.txt). *)
let coalesce_fixed = true
let repair_traversal = true
let repair_closures = true
let repair_assert = true
let repairs_in_repo = { r_traversal = repair_traversal; r_closures = repair_closures; r_assert = repair_assert }

let rec nat_of_int (i : int) : nat = if i <= 0 then O else S (nat_of_int (i - 1))
let rec int_of_nat = function O -> 0 | S k -> 1 + int_of_nat k

type iresult =
  | ISum of (string * string * expr) list   (* gid, truth table, value *)
  | IGuard of string * string
  | IPanic

let binop (name : string) : expr -> expr -> expr =
  let w e = match type_of e with TBV w -> w | TArr _ -> N0 in
  match name with
  | "and" -> fun a b -> BVAnd (a, b, w b)
  | "or" -> fun a b -> BVOr (a, b, w b)
  | "xor" -> fun a b -> BVXor (a, b, w b)
  | "add" -> fun a b -> BVAdd (a, b, w b)
  | "sub" -> fun a b -> BVSub (a, b, w b)
  | "eq" -> fun a b -> BVEqual (a, b)
  | "ugt" -> fun a b -> BVGreater (a, b)
  | "implies" -> fun a b -> BVImplies (a, b)
  | "fst" -> fun a _ -> a
  | "snd" -> fun _ b -> b
  | s -> raise (Sexp.Parse_error ("unknown operator " ^ s))

let show_expr e = Sexp.to_string (sexp_of_expr e)

exception Unknown_terminal of string

let handle (x : Sexp.t) : string =
  let id, fs = case_fields x in
  let debug = (match Sexp.field_opt "debug" fs with Some [d] -> Sexp.atom d = "1" | _ -> true) in
  let steps = Sexp.field "steps" fs in
  let iterms = List.map expr_of_sexp (Sexp.field "terms" fs) in
  let n = List.length iterms in
  let nval = 1 lsl n in
  let impl = List.map (function
      | Sexp.List [Sexp.Atom "panic"] -> IPanic
      | Sexp.List [Sexp.Atom "g"; gid; tt] -> IGuard (Sexp.atom gid, Sexp.atom tt)
      | Sexp.List (Sexp.Atom "s" :: es) ->
          ISum (List.map (function
              | Sexp.List [gid; tt; v] -> (Sexp.atom gid, Sexp.atom tt, expr_of_sexp v)
              | e -> raise (Sexp.Parse_error ("bad entry " ^ Sexp.to_string e))) es)
      | r -> raise (Sexp.Parse_error ("bad impl result " ^ Sexp.to_string r))) (Sexp.field "impl" fs) in
  let panicloc = match Sexp.field_opt "panicloc" fs with Some [l] -> Sexp.atom l | _ -> "?" in
  (* position of an expression among the implementation's terminals *)
  let ipos (e : expr) : int =
    let rec go i = function [] -> raise (Unknown_terminal (show_expr e)) | h :: t -> if expr_eqb h e then i else go (i + 1) t in
    go 0 iterms in
  (* valuation number k as a valuation of the implementation's labels *)
  let ival (k : int) : nat -> bool = fun i -> (k lsr (int_of_nat i)) land 1 = 1 in
  (* ... and as a valuation of the model's labels (positions in the model's term list) *)
  let mval (mterms : expr list) (k : int) : nat -> bool =
    let pos = Array.of_list (List.map ipos mterms) in
    fun i -> let i = int_of_nat i in if i < Array.length pos then (k lsr pos.(i)) land 1 = 1 else false in
  let model_tt (mterms : expr list) (g : bdd) : string =
    String.init nval (fun k -> if bdd_eval (mval mterms k) g then '1' else '0') in

  (* ---------------- model run + comparison ---------------- *)
  let diff = ref None in
  let note_diff s = if !diff = None then diff := Some s in
  let isums : (string * string * expr) list list ref = ref [] in   (* implementation summaries so far *)
  let nth_isum i = try Some (List.nth !isums i) with _ -> None in
  let st = ref (Some vinit) in
  let msums_count = ref 0 in
  let idx a = nat_of_int (int_of_string (Sexp.atom a)) in
  let to_op (s : Sexp.t) : vop =
    match s with
    | Sexp.List [Sexp.Atom "new"; e] -> ONew (expr_of_sexp e)
    | Sexp.List [Sexp.Atom "guard"; e] -> OGuard (expr_of_sexp e)
    | Sexp.List [Sexp.Atom "bin"; op; i; j] ->
        (* rank of a guard = the implementation's node number of the operand entry with the same truth table *)
        let tbl = List.concat_map (fun k -> match nth_isum (int_of_string (Sexp.atom k)) with
            | Some es -> List.map (fun (gid, tt, _) -> (tt, n_of_dec gid)) es | None -> []) [i; j] in
        let mterms = match !st with Some s -> s.vs_terms | None -> [] in
        let rank g = match List.assoc_opt (model_tt mterms g) tbl with Some r -> r | None -> N0 in
        OBin (rank, binop (Sexp.atom op), idx i, idx j)
    | Sexp.List [Sexp.Atom "ite"; c; t; f] -> OIte (idx c, idx t, idx f)
    | Sexp.List [Sexp.Atom "coalesce"; i] -> OCoalesce (idx i)
    | Sexp.List [Sexp.Atom "import"; i] -> OImport (idx i)
    | s -> raise (Sexp.Parse_error ("bad step " ^ Sexp.to_string s)) in
  let canon_entries l = List.sort compare l in
  (* ---------------- oracle state ---------------- *)
  let fail = ref None in
  let note_fail key detail = if !fail = None then fail := Some (key, detail) in
  let tainted : bool list ref = ref [] in     (* per implementation summary: not a partition (or derived from one) *)
  let is_tainted i = try List.nth !tainted i with _ -> true in
  let cnt (es : (string * string * expr) list) k = List.length (List.filter (fun (_, tt, _) -> tt.[k] = '1') es) in
  let iden es k = match List.filter (fun (_, tt, _) -> tt.[k] = '1') es with (_, _, v) :: _ -> Some v | [] -> None in
  let is_part es = let ok = ref true in for k = 0 to nval - 1 do if cnt es k <> 1 then ok := false done; !ok in
  let all_sym_terms = List.for_all (function BVSymbol (_, w) -> w = n_of_int 1 | _ -> false) iterms in
  let rho_of k : env =
    { rho_bv = (fun nm w ->
          let rec go i = function
            | [] -> N0
            | BVSymbol (nm', w') :: t -> if nm' = nm && w' = w then (if (k lsr i) land 1 = 1 then n_of_int 1 else N0) else go (i + 1) t
            | _ :: t -> go (i + 1) t in
          go 0 iterms);
      rho_arr = (fun _ _ _ _ -> N0) } in
  let bool_wt e = wt e && expr_is_bool e in
  let dead = ref false in
  (try
     List.iteri (fun stepno (sx, ir) ->
         if not !dead then begin
           let kind = Sexp.atom (List.hd (Sexp.list sx)) in
           (* ---- model ---- *)
           let op = to_op sx in
           let mres = match !st with Some s -> (match vstep repairs_in_repo debug coalesce_fixed s op with Ok s' -> Some s' | Panic -> None) | None -> None in
           (match ir, mres with
            | IPanic, None -> ()
            | IPanic, Some _ -> note_diff (Printf.sprintf "step %d (%s): implementation panics at %s, model does not" stepno kind panicloc)
            | _, None -> note_diff (Printf.sprintf "step %d (%s): model panics, implementation does not" stepno kind)
            | ISum es, Some s' ->
                let ms = List.nth s'.vs_sums !msums_count in
                let a = canon_entries (List.map (fun (_, tt, v) -> (tt, show_expr v)) es) in
                let b = canon_entries (List.map (fun (g, v) -> (model_tt s'.vs_terms g, show_expr v)) ms) in
                if a <> b then
                  note_diff (Printf.sprintf "step %d (%s): entries differ: impl=[%s] model=[%s]" stepno kind
                               (String.concat "; " (List.map (fun (t, v) -> t ^ ":" ^ v) a))
                               (String.concat "; " (List.map (fun (t, v) -> t ^ ":" ^ v) b)))
            | IGuard (_, tt), Some s' ->
                let g = List.nth s'.vs_guards (List.length s'.vs_guards - 1) in
                let mt = model_tt s'.vs_terms g in
                if mt <> tt then note_diff (Printf.sprintf "step %d (guard): impl=%s model=%s" stepno tt mt));
           st := mres;
           (match ir, mres with ISum _, Some _ -> incr msums_count | _ -> ());
           (* ---- property oracle on the implementation's result ---- *)
           let args = match sx with
             | Sexp.List (Sexp.Atom ("new" | "guard") :: _) -> []
             | Sexp.List (Sexp.Atom "bin" :: _ :: r) | Sexp.List (Sexp.Atom _ :: r) -> List.map (fun a -> int_of_string (Sexp.atom a)) r
             | _ -> [] in
           let arg_sums = List.map (fun i -> match nth_isum i with Some es -> es | None -> []) args in
           let args_ok = List.for_all (fun i -> not (is_tainted i)) args in
           (match ir with
            | IPanic ->
                dead := true;
                let in_domain = match sx with
                  | Sexp.List [Sexp.Atom "guard"; e] -> bool_wt (expr_of_sexp e)
                  | Sexp.List (Sexp.Atom "ite" :: _) -> List.for_all (fun (_, _, v) -> bool_wt v) (List.hd arg_sums)
                  | Sexp.List (Sexp.Atom "import" :: _) -> List.for_all (fun (_, _, v) -> bool_wt v) (List.hd arg_sums)
                  | _ -> true in
                if in_domain then note_fail ("panic@" ^ panicloc) (Printf.sprintf "step %d (%s) panics" stepno kind)
            | IGuard (_, tt) ->
                let e = (match sx with Sexp.List [_; e] -> expr_of_sexp e | _ -> raise (Sexp.Parse_error "guard")) in
                for k = 0 to nval - 1 do
                  let want = bsem iterms (ival k) e in
                  if (tt.[k] = '1') <> want then
                    note_fail "guard:equiv" (Printf.sprintf "step %d: guard of %s is %c at valuation %d, expression is %b" stepno (show_expr e) tt.[k] k want);
                  if all_sym_terms && bool_wt e then begin
                    let want2 = (ebv (rho_of k) e = n_of_int 1) in
                    if (tt.[k] = '1') <> want2 then
                      note_fail "guard:equiv" (Printf.sprintf "step %d: guard of %s is %c at valuation %d, ebv gives %b" stepno (show_expr e) tt.[k] k want2)
                  end
                done
            | ISum es ->
                let taint = ref (not args_ok) in
                if args_ok then begin
                  (* partition *)
                  (try for k = 0 to nval - 1 do
                       let c = cnt es k in
                       if c <> 1 then begin
                         taint := true;
                         note_fail (kind ^ (if c = 0 then ":gap" else ":overlap"))
                           (Printf.sprintf "step %d (%s): %d guards true at valuation %d" stepno kind c k);
                         raise Exit
                       end
                     done with Exit -> ());
                  (* denotation: every true entry must carry the expected value (also checks overlapping entries) *)
                  for k = 0 to nval - 1 do
                    let sel = List.filter_map (fun (_, tt, v) -> if tt.[k] = '1' then Some v else None) es in
                    let dens = List.map (fun a -> iden a k) arg_sums in
                    let check (ok : expr -> bool) (descr : string) =
                      List.iter (fun v -> if not (ok v) then
                                    note_fail (kind ^ ":den") (Printf.sprintf "step %d (%s) valuation %d: selected %s, expected %s" stepno kind k (show_expr v) descr)) sel in
                    (match sx, dens with
                     | Sexp.List [Sexp.Atom "new"; e], _ -> let e = expr_of_sexp e in check (fun v -> expr_eqb v e) (show_expr e)
                     | Sexp.List (Sexp.Atom "bin" :: opn :: _), [Some a; Some b] ->
                         let want = binop (Sexp.atom opn) a b in check (fun v -> expr_eqb v want) (show_expr want)
                     | Sexp.List (Sexp.Atom "ite" :: _), [Some c; Some t; Some f] ->
                         let want = if bsem iterms (ival k) c then t else f in check (fun v -> expr_eqb v want) (show_expr want)
                     | Sexp.List (Sexp.Atom "coalesce" :: _), [Some a] -> check (fun v -> expr_eqb v a) (show_expr a)
                     | Sexp.List (Sexp.Atom "import" :: _), [Some a] ->
                         let want = bsem iterms (ival k) a in
                         check (fun v -> bsem iterms (ival k) v = want) (Printf.sprintf "a value that is %b" want)
                     | _ -> ())
                  done
                end;
                isums := !isums @ [es];
                tainted := !tainted @ [!taint])
         end)
       (List.combine (List.filteri (fun i _ -> i < List.length impl) steps) impl)
   with Unknown_terminal t -> note_diff ("the model registers a terminal the implementation does not have: " ^ t));
  let kinds = String.concat "," (List.sort_uniq compare (List.map (fun s -> Sexp.atom (List.hd (Sexp.list s))) steps)) in
  match !fail, !diff with
  | Some (key, detail), d ->
      Registry.result ~id ~status:"fail" ~key ~detail:(detail ^ (match d with Some d -> " | also model/impl differ: " ^ d | None -> "")) ()
  | None, Some d -> Registry.result ~id ~status:"diff" ~key:"entries" ~detail:d ()
  | None, None -> Registry.result ~id ~status:"ok" ~key:kinds ()

let () = Registry.register "C20" handle
