(* Minimal S-expression reader/printer used on the harness <-> driver pipe.
   Atoms: any run of characters other than whitespace, parens and double quote.
   Strings: double-quoted with backslash escapes (backslash, quote, n, t, r, xHH). *)
type t = Atom of string | Str of string | List of t list

exception Parse_error of string

let parse_string (s : string) : t =
  let n = String.length s in
  let pos = ref 0 in
  let rec skip () =
    while !pos < n && (s.[!pos] = ' ' || s.[!pos] = '\t' || s.[!pos] = '\n' || s.[!pos] = '\r') do incr pos done
  and item () =
    skip ();
    if !pos >= n then raise (Parse_error "unexpected end");
    match s.[!pos] with
    | '(' ->
        incr pos;
        let items = ref [] in
        let rec loop () =
          skip ();
          if !pos >= n then raise (Parse_error "unclosed paren");
          if s.[!pos] = ')' then incr pos
          else (items := item () :: !items; loop ())
        in
        loop ();
        List (List.rev !items)
    | ')' -> raise (Parse_error "unexpected )")
    | '"' ->
        incr pos;
        let b = Buffer.create 16 in
        let rec loop () =
          if !pos >= n then raise (Parse_error "unclosed string");
          let c = s.[!pos] in
          incr pos;
          if c = '"' then ()
          else if c = '\\' then begin
            if !pos >= n then raise (Parse_error "bad escape");
            let e = s.[!pos] in
            incr pos;
            (match e with
             | 'n' -> Buffer.add_char b '\n'
             | 't' -> Buffer.add_char b '\t'
             | 'r' -> Buffer.add_char b '\r'
             | 'x' ->
                 let h = String.sub s !pos 2 in
                 pos := !pos + 2;
                 Buffer.add_char b (Char.chr (int_of_string ("0x" ^ h)))
             | c -> Buffer.add_char b c);
            loop ()
          end else (Buffer.add_char b c; loop ())
        in
        loop ();
        Str (Buffer.contents b)
    | _ ->
        let start = !pos in
        while !pos < n && (match s.[!pos] with ' ' | '\t' | '\n' | '\r' | '(' | ')' | '"' -> false | _ -> true) do incr pos done;
        Atom (String.sub s start (!pos - start))
  in
  let r = item () in
  skip ();
  if !pos <> n then raise (Parse_error "trailing input");
  r

let escape (s : string) : string =
  let b = Buffer.create (String.length s + 2) in
  Buffer.add_char b '"';
  String.iter (fun c ->
      match c with
      | '"' -> Buffer.add_string b "\\\""
      | '\\' -> Buffer.add_string b "\\\\"
      | '\n' -> Buffer.add_string b "\\n"
      | '\t' -> Buffer.add_string b "\\t"
      | '\r' -> Buffer.add_string b "\\r"
      | c when Char.code c < 32 || Char.code c > 126 -> Buffer.add_string b (Printf.sprintf "\\x%02x" (Char.code c))
      | c -> Buffer.add_char b c) s;
  Buffer.add_char b '"';
  Buffer.contents b

let rec to_buffer b = function
  | Atom a -> Buffer.add_string b a
  | Str s -> Buffer.add_string b (escape s)
  | List l ->
      Buffer.add_char b '(';
      List.iteri (fun i x -> if i > 0 then Buffer.add_char b ' '; to_buffer b x) l;
      Buffer.add_char b ')'

let to_string (x : t) : string =
  let b = Buffer.create 64 in
  to_buffer b x;
  Buffer.contents b

(* accessors *)
let atom = function Atom a -> a | Str s -> s | List _ -> raise (Parse_error "expected atom")
let list = function List l -> l | _ -> raise (Parse_error "expected list")

(* (key v1 v2 ...) lookup inside a list of fields *)
let field (name : string) (fields : t list) : t list =
  let rec go = function
    | [] -> raise (Parse_error ("missing field " ^ name))
    | List (Atom k :: rest) :: _ when k = name -> rest
    | _ :: tl -> go tl
  in
  go fields

let field_opt name fields = try Some (field name fields) with Parse_error _ -> None
let field1 name fields = match field name fields with [x] -> x | _ -> raise (Parse_error ("field arity " ^ name))
