(* C17: cone of influence.  Case:
   (case ID (kind K) (sys ...) (roots (r E (full S..) (init S..) (comb S..)) ...)
            (trials (t (base V ..) (alt V ..)) ...) (panicloc ".."))
   Correspondence: implementation's reported symbols vs extracted Model.coi_opt, as sets.
   Property oracle (meaning fixed by Props/C17.v):
     - every reported symbol is an input/state symbol reachable from the root (= member of the
       model cone, by C17_coi_tight / C17_coi_only_inputs_states);
     - perturbing, in the reference semantics (extracted init_seq / next_env / run_from / ebv / earr),
       every input and state symbol OUTSIDE THE IMPLEMENTATION'S cone leaves the root's value
       unchanged: in the current valuation (comb), right after init_seq (init), at every step of
       a run (full; both from init_seq and from the raw valuation). *)
open Model
open Conv

let variants = [ ("full", VFull); ("init", VInit); ("comb", VComb) ]

let sym_str (e : expr) : string = Sexp.to_string (sexp_of_expr e)
let set_of (l : expr list) : string list = List.sort_uniq compare (List.map sym_str l)

let parse_val (x : Sexp.t) : env =
  match x with
  | Sexp.List (Sexp.Atom "v" :: fs) -> mk_env (parse_bvenv (Sexp.field "bvenv" fs)) (parse_arrenv (Sexp.field "arrenv" fs))
  | _ -> raise (Sexp.Parse_error "valuation")

let rec pow2 k = if k <= 0 then 1 else 2 * pow2 (k - 1)

(* same value of [root] under two valuations *)
let same_value (root : expr) (r1 : env) (r2 : env) : bool =
  match type_of root with
  | TBV _ -> ebv r1 root = ebv r2 root
  | TArr (iw, _) ->
      let n = pow2 (min (int_of_n iw) 6) in
      let f1 = earr r1 root and f2 = earr r2 root in
      let ok = ref true in
      for i = 0 to n - 1 do
        if f1 (n_of_int i) <> f2 (n_of_int i) then ok := false
      done;
      !ok

let rec all2 f a b = match a, b with
  | x :: xs, y :: ys -> f x y && all2 f xs ys
  | [], [] -> true
  | _ -> false

let rec drop1 = function [] -> [] | _ :: t -> t

(* is the cone [c] sufficient for [root] on this trial? *)
let sufficient (v : variant) (sy : sys) (root : expr) (c : expr list) (bases : env list) (alts : env list) : bool =
  match bases, alts with
  | b0 :: bs, a0 :: als ->
      let p0 = perturb sy c b0 a0 in
      (match v with
       | VComb -> same_value root b0 p0
       | VInit -> same_value root (init_seq sy b0) (init_seq sy p0)
       | VFull ->
           let ps = perturb_all sy c bs als in
           all2 (same_value root) (run_from sy (init_seq sy b0) bs) (run_from sy (init_seq sy p0) ps)
           && all2 (same_value root) (run_from sy b0 bs) (run_from sy p0 ps))
  | _ -> true

let handle (x : Sexp.t) : string =
  let id, fs = case_fields x in
  let sy = sys_of_sexp (Sexp.List (Sexp.Atom "sys" :: Sexp.field "sys" fs)) in
  let in_domain = states_distinct_b sy in
  let trials = List.map (function
      | Sexp.List (Sexp.Atom "t" :: tf) -> (List.map parse_val (Sexp.field "base" tf), List.map parse_val (Sexp.field "alt" tf))
      | _ -> raise (Sexp.Parse_error "trial")) (match Sexp.field_opt "trials" fs with Some l -> l | None -> []) in
  let panicloc = match Sexp.field_opt "panicloc" fs with Some [l] -> Sexp.atom l | _ -> "?" in
  (* kernel cross-check: the model cone of every root under the three variants (in the model's order), states_distinct_b *)
  Registry.set_model_lazy (fun () ->
      let cone v root = match coi_opt v sy root with
        | None -> "none"
        | Some l -> "(" ^ String.concat " " (List.map sym_str l) ^ ")" in
      let roots = List.map (function
          | Sexp.List (Sexp.Atom "r" :: rx :: _) ->
              let root = expr_of_sexp rx in
              "(" ^ String.concat " " (List.map (fun (_, v) -> cone v root) variants) ^ ")"
          | _ -> raise (Sexp.Parse_error "root")) (Sexp.field "roots" fs) in
      Printf.sprintf "(c17 %s%s)" (if in_domain then "true" else "false") (String.concat "" (List.map (fun r -> " " ^ r) roots)));
  let fails = ref [] and diffs = ref [] and errors = ref [] in
  let n_roots = ref 0 and order_same = ref true in
  List.iter (fun r ->
      match r with
      | Sexp.List (Sexp.Atom "r" :: rx :: rfs) ->
          incr n_roots;
          let root = expr_of_sexp rx in
          List.iter (fun (vname, v) ->
              let where = Printf.sprintf "%s root=%s" vname (Sexp.to_string rx) in
              match coi_opt v sy root with
              | None -> errors := ("model out of fuel: " ^ where) :: !errors
              | Some model ->
                  (match Sexp.field vname rfs with
                   | [Sexp.List [Sexp.Atom "panic"]] ->
                       fails := ("panic@" ^ panicloc, "implementation panicked: " ^ where) :: !fails
                   | items ->
                       let impl = List.map expr_of_sexp items in
                       let ms = set_of model and is = set_of impl in
                       if List.map sym_str impl <> List.map sym_str model then order_same := false;
                       (* reported symbols that are not reachable inputs/states *)
                       let extra = List.filter (fun s -> not (List.mem (sym_str s) ms)) impl in
                       (match extra with
                        | s :: _ ->
                            if not (reported sy s) then
                              fails := ("not-input-or-state:" ^ vname, Printf.sprintf "reported %s is not an input/state symbol; %s" (sym_str s) where) :: !fails
                            else if in_domain then
                              fails := ("not-tight:" ^ vname, Printf.sprintf "reported %s is not reachable from the root; %s" (sym_str s) where) :: !fails
                        | [] -> ());
                       if in_domain then begin
                         if not (List.for_all (fun (bases, alts) -> sufficient v sy root impl bases alts) trials) then
                           fails := ("insufficient:" ^ vname, Printf.sprintf "perturbing symbols outside the reported cone {%s} changes the root's value; model cone {%s}; %s"
                                       (String.concat " " is) (String.concat " " ms) where) :: !fails
                       end;
                       if ms <> is then
                         diffs := ("cone-differs:" ^ vname, Printf.sprintf "impl {%s} model {%s} %s" (String.concat " " is) (String.concat " " ms) where) :: !diffs))
            variants
      | _ -> raise (Sexp.Parse_error "root")) (Sexp.field "roots" fs);
  match List.rev !errors, List.rev !fails, List.rev !diffs with
  | e :: _, _, _ -> Registry.result ~id ~status:"error" ~key:"model" ~detail:e ()
  | [], (k, d) :: _, _ -> Registry.result ~id ~status:"fail" ~key:k ~detail:d ()
  | [], [], (k, d) :: _ -> Registry.result ~id ~status:"diff" ~key:k ~detail:d ()
  | [], [], [] ->
      let key = (if in_domain then "in-domain" else "dup-states") ^ (if !order_same then "" else ":order-differs") in
      Registry.result ~id ~status:"ok" ~key ~detail:(Printf.sprintf "%d roots x 3 variants" !n_roots) ()

let () = Registry.register "C17" handle
