(* Each property module registers a handler: one case (S-expression) -> one result line.
   Result line convention (tab separated):  <id> \t <status> \t <key> \t <detail>
     status = ok    model, oracle and implementation agree
              diff  implementation differs from the model but the property oracle holds (or is n/a)
              fail  the property oracle is violated on this concrete case
              skip  case outside the model's domain (counted, reported)                       *)
let handlers : (string, Sexp.t -> string) Hashtbl.t = Hashtbl.create 32
let register (name : string) (f : Sexp.t -> string) = Hashtbl.replace handlers name f
let result ~id ~status ?(key = "-") ?(detail = "") () = Printf.sprintf "%s\t%s\t%s\t%s" id status key detail

(* Kernel cross-check (tools/kernel/run.py): when VERIF_EMIT_MODEL is set, main.ml appends a 5th tab-separated column,
   the canonical text of the MODEL's raw output for the case, as left here by the handler ("-" = the handler does not
   print one).  The default four-column output that ./check parses is unchanged. *)
let emit_model : bool = (match Sys.getenv_opt "VERIF_EMIT_MODEL" with Some ("" | "0") | None -> false | Some _ -> true)
let model_col : string ref = ref "-"
let set_model (s : string) : unit = if emit_model then model_col := s
(* for texts that are expensive to build *)
let set_model_lazy (f : unit -> string) : unit = if emit_model then model_col := f ()
