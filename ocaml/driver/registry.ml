(* Each property module registers a handler: one case (S-expression) -> one result line.
   Result line convention (tab separated):  <id> \t <status> \t <key> \t <detail>
     status = ok    model, oracle and implementation agree
              diff  implementation differs from the model but the property oracle holds (or is n/a)
              fail  the property oracle is violated on this concrete case
              skip  case outside the model's domain (counted, reported)                       *)
let handlers : (string, Sexp.t -> string) Hashtbl.t = Hashtbl.create 32
let register (name : string) (f : Sexp.t -> string) = Hashtbl.replace handlers name f
let result ~id ~status ?(key = "-") ?(detail = "") () = Printf.sprintf "%s\t%s\t%s\t%s" id status key detail
