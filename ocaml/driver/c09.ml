(* roots: C18 C08 C09 *)
(* C09: writing a system as btor2 and reading it back preserves it.  Case:
   (case ID (profile P) (origin ..) (vseed N) (sys0 (nodes ..) (sys ..)) (ser1 ok|(err m)|(panic loc)) (sys1 R) (names1 N)
         (ser2 ..) (names2 N) (fix same|differs|na) (text1 ".."))
   correspondence : Model.serialize sys0 (class), and Model.parse_lines (Model.serialize sys0) against the
                    implementation's sys1, modulo the names of symbols (the model writer emits no names)
   property oracle: sys1 = read(write(sys0)) has, position by position, the inputs (states without init and next are
                    read back as inputs, as parse.rs demotes them), states, outputs, bads and constraints of sys0 with the
                    same types, and every init/next/output/bad/constraint function is the same function of the
                    positionally corresponding symbols (structural identity, else extracted ebv/earr on valuations);
                    names of inputs/states/outputs of the parsed system sys1 survive a second write/read cycle. *)
open Model
open Conv
open C08

let dag_sys_of (fields : Sexp.t list) : dag * isys =
  let d = dag_of_sexp (Sexp.field "nodes" fields) in
  let s = isys_of_sexp (List.find (function Sexp.List (Sexp.Atom "sys" :: _) -> true | _ -> false) fields) in
  (d, s)

let sym_name = function BVSymbol (n, _) -> n | ArraySymbol (n, _, _) -> n | _ -> []
let with_name e n = match e with BVSymbol (_, w) -> BVSymbol (n, w) | ArraySymbol (_, i, d) -> ArraySymbol (n, i, d) | x -> x

(* structural comparison of node i of d0 with node j of d1 under a symbol map (sys0 symbol -> sys1 symbol), memoised on (i, j) *)
let make_same2 (d0 : dag) (d1 : dag) (symmap : (expr * expr) list) : int -> int -> bool =
  let memo : (int * int, bool) Hashtbl.t = Hashtbl.create 1024 in
  let rec same i j =
    match Hashtbl.find_opt memo (i, j) with
    | Some r -> r
    | None ->
        let a = d0.nodes.(i) and b = d1.nodes.(j) in
        let r =
          match a with
          | BVSymbol _ | ArraySymbol _ -> (match List.assoc_opt a symmap with Some b' -> b' = b | None -> false)
          | BVLiteral _ -> a = b
          | _ ->
              constructor_name a = constructor_name b &&
              (* the non-recursive fields *)
              (match a, b with
               | BVZeroExt (_, x, y), BVZeroExt (_, x', y') | BVSignExt (_, x, y), BVSignExt (_, x', y')
               | BVSlice (_, x, y), BVSlice (_, x', y') | ArrayConstant (_, x, y), ArrayConstant (_, x', y') -> x = x' && y = y'
               | BVNot (_, w), BVNot (_, w') | BVNegate (_, w), BVNegate (_, w') -> w = w'
               | _ -> type_of a = type_of b) &&
              List.length d0.kids.(i) = List.length d1.kids.(j) &&
              List.for_all2 same d0.kids.(i) d1.kids.(j)
        in
        Hashtbl.replace memo (i, j) r;
        r
  in
  same

(* debug names of non-symbol nodes: (signames (k "name") ..) next to the nodes of a dumped system *)
let signames_of (fields : Sexp.t list) (d : dag) : (expr * char list) list =
  match Sexp.field_opt "signames" fields with
  | Some l -> List.filter_map (function Sexp.List [k; n] -> Some (d.nodes.(idx k), big_coqstr (Sexp.atom n)) | _ -> None) l
  | None -> []

(* token lines of a text written by the implementation (the comment line has no tokens) *)
let text_lines (t : string) : char list list list =
  List.filter (fun l -> l <> []) (List.map tokenize (split_lines (big_coqstr t)))

let show_line (l : char list list) : string = String.concat " " (List.map big_ocamlstr l)

(* first difference between the model writer's lines and the implementation's *)
let text_diff (model : char list list list) (impl : char list list list) : string option =
  let rec go k = function
    | [], [] -> None
    | a :: l, b :: m -> if a = b then go (k + 1) (l, m) else Some (Printf.sprintf "line %d: model `%s` / impl `%s`" k (show_line a) (show_line b))
    | a :: _, [] -> Some (Printf.sprintf "line %d: model `%s` / impl has no more lines" k (show_line a))
    | [], b :: _ -> Some (Printf.sprintf "line %d: model has no more lines / impl `%s`" k (show_line b))
  in
  go 1 (model, impl)

(* names of the inputs / states / outputs of a model system *)
let sys_names (sy : sys) : string list * string list * string list =
  let nm e = big_ocamlstr (sym_name e) in
  (List.map nm sy.s_inputs, List.map (fun s -> nm s.st_sym) sy.s_states, List.map (fun (n, _) -> big_ocamlstr n) sy.s_outputs)

let names_of (x : Sexp.t) : (string list * string list * string list) option =
  match x with
  | Sexp.List fs ->
      let g k = List.map Sexp.atom (match Sexp.field_opt k fs with Some l -> l | None -> []) in
      Some (g "inputs", g "states", g "outputs")
  | _ -> None

let is_plain (_, i, n) = (i = None) && (n = None)

let handle (x : Sexp.t) : string =
  let id, fs = case_fields x in
  let dbg = Sexp.atom (Sexp.field1 "profile" fs) = "debug" in
  let vseed = int_of_string (Sexp.atom (Sexp.field1 "vseed" fs)) in
  let (d0, s0) = dag_sys_of (Sexp.field "sys0" fs) in
  let ser1 = Sexp.field1 "ser1" fs in
  let sizes0 = tree_sizes d0 in
  let total0 = Array.fold_left (fun a k -> min (1 lsl 40) (a + k)) 0 sizes0 in
  let small = total0 < 30000 in
  (* the model writer on sys0 (small systems only: its id cache is keyed by structural equality of trees) *)
  let msys0 = sys_of_isys d0 s0 in
  let mser = if small then Some (serialize msys0) else None in
  let mclass = match mser with Some (POk _) -> "ok" | Some PErr -> "err" | Some (PPanic _) -> "panic" | None -> "n/a" in
  match ser1 with
  | Sexp.List (Sexp.Atom "err" :: _) ->
      (match mser with
       | Some PErr | None -> Registry.result ~id ~status:"ok" ~key:"writer-error" ()
       | _ -> Registry.result ~id ~status:"diff" ~key:"ser-class" ~detail:("impl err, model " ^ mclass) ())
  | Sexp.List (Sexp.Atom "panic" :: loc :: _) ->
      (match mser with
       | Some (PPanic _) | None -> Registry.result ~id ~status:"ok" ~key:"writer-panic" ~detail:(Sexp.atom loc) ()
       | _ -> Registry.result ~id ~status:"diff" ~key:"ser-class" ~detail:("impl panic at " ^ Sexp.atom loc ^ ", model " ^ mclass) ())
  | _ ->
      (match mser with
       | Some (POk _) | None -> ()
       | _ -> ());
      (match Sexp.field1 "sys1" fs with
       | Sexp.List (Sexp.Atom "ok" :: f1) ->
           let (d1, s1) = impl_ok_of_sexp f1 in
           let g0 i = d0.nodes.(i) and g1 i = d1.nodes.(i) in
           let problem = ref None in
           let note k = if !problem = None then problem := Some k in
           (* expected shape: states without init and next are read back as inputs *)
           let plain0 = List.filter is_plain s0.i_states and nonplain0 = List.filter (fun s -> not (is_plain s)) s0.i_states in
           let exp_inputs = s0.i_inputs @ List.map (fun (sy, _, _) -> sy) plain0 in
           if List.length exp_inputs <> List.length s1.i_inputs then note "count:inputs";
           if List.length nonplain0 <> List.length s1.i_states then note "count:states";
           if List.length s0.i_outputs <> List.length s1.i_outputs then note "count:outputs";
           if List.length s0.i_bads <> List.length s1.i_bads then note "count:bads";
           if List.length s0.i_constraints <> List.length s1.i_constraints then note "count:constraints";
           if !problem = None then begin
             let symmap =
               List.map2 (fun a b -> (g0 a, g1 b)) exp_inputs s1.i_inputs @
               List.map2 (fun (a, _, _) (b, _, _) -> (g0 a, g1 b)) nonplain0 s1.i_states in
             List.iter (fun (a, b) -> if type_of a <> type_of b then note "type:symbol") symmap;
             (* two different symbols of sys0 must not be merged *)
             if List.length (List.sort_uniq compare (List.map snd symmap)) <> List.length (List.sort_uniq compare (List.map fst symmap)) then note "symbols-merged";
             if !problem = None then begin
               let same = make_same2 d0 d1 symmap in
               let st = Random.State.make [| vseed |] in
               let sizes1 = tree_sizes d1 in
               let evaluable i j = sizes0.(i) < 2000000 && sizes1.(j) < 2000000 in
               (* equivalence of root i of sys0 and root j of sys1 *)
               let equiv what i j =
                 if type_of (g0 i) <> type_of (g1 j) then note ("type:" ^ what)
                 else if same i j then ()
                 else if not (evaluable i j) then note ("skip")
                 else begin
                   for trial = 0 to 5 do
                     let asg = List.map (fun (a, b) ->
                         match a with
                         | BVSymbol (_, w) -> (a, b, SV (pick_value st trial w))
                         | ArraySymbol (_, _, dw) ->
                             let k = pick_value st trial dw and c = pick_value st trial dw in
                             (a, b, SF (fun i -> N.modulo (N.add (N.mul k i) c) (pow2 dw)))
                         | _ -> (a, b, SV N0)) symmap in
                     let mk side =
                       let look e = List.find_map (fun (a, b, v) -> if (if side then a else b) = e then Some v else None) asg in
                       { rho_bv = (fun nm w -> match look (BVSymbol (nm, w)) with Some (SV v) -> v | _ -> N0);
                         rho_arr = (fun nm iw dw -> match look (ArraySymbol (nm, iw, dw)) with Some (SF f) -> f | _ -> (fun _ -> N0)) } in
                     let r0 = mk true and r1 = mk false in
                     (match type_of (g0 i) with
                      | TBV _ -> if ebv r0 (g0 i) <> ebv r1 (g1 j) then note ("value:" ^ what)
                      | TArr (iw, _) ->
                          let f = earr r0 (g0 i) and g = earr r1 (g1 j) in
                          let idxs = if int_of_n iw <= 6 then List.init (1 lsl int_of_n iw) n_of_int
                            else [N0; n_of_int 1; N.sub (pow2 iw) (n_of_int 1); rand_bits st (int_of_n iw); rand_bits st (int_of_n iw)] in
                          if List.exists (fun k -> f k <> g k) idxs then note ("value:" ^ what))
                   done
                 end in
               List.iter2 (fun (_, i0, n0) (_, i1, n1) ->
                   (match i0, i1 with
                    | None, None -> () | Some a, Some b -> equiv "init" a b | _ -> note "presence:init");
                   (match n0, n1 with
                    | None, None -> () | Some a, Some b -> equiv "next" a b | _ -> note "presence:next")) nonplain0 s1.i_states;
               List.iter2 (fun (_, a) (_, b) -> equiv "output" a b) s0.i_outputs s1.i_outputs;
               List.iter2 (fun a b -> equiv "bad" a b) s0.i_bads s1.i_bads;
               List.iter2 (fun a b -> equiv "constraint" a b) s0.i_constraints s1.i_constraints
             end
           end;
           (* names: a parsed sys0 must keep its names through the first cycle, sys1 (always parsed) through the second *)
           let origin = Sexp.atom (Sexp.field1 "origin" fs) in
           let parsed0 = String.length origin >= 4 && (String.sub origin 0 4 = "pars" || String.sub origin 0 4 = "file") in
           let names0 =
             if parsed0 && !problem = None then begin
               let nm i = big_ocamlstr (sym_name (g0 i)) in
               let plain0 = List.filter is_plain s0.i_states and nonplain0 = List.filter (fun s -> not (is_plain s)) s0.i_states in
               Some (List.map nm (s0.i_inputs @ List.map (fun (sy, _, _) -> sy) plain0),
                     List.map (fun (sy, _, _) -> nm sy) nonplain0,
                     List.map (fun (n, _) -> big_ocamlstr n) s0.i_outputs)
             end else None in
           (* The writer WITH its name bookkeeping (Model.serialize_named) is run on the system of each cycle: its lines must be
              the implementation's text, and reading them with the model reader predicts which explicit names the UNMODIFIED
              writer/reader pair preserves.  An explicit name the pair preserves must survive in the implementation; a name the
              pair itself loses is excused only under the key of its recorded class. *)
           let text_problem = ref None in
           let predicted (asys : sys) (nmA : (expr * char list) list) (impl_text : string option) (what : string) =
             if not small then None
             else match serialize_named_v writer_variant asys nmA with
               | POk lines ->
                   (match impl_text with
                    | Some t -> (match text_diff lines (text_lines t) with
                        | Some w -> if !text_problem = None then text_problem := Some (what ^ " text, " ^ w)
                        | None -> ())
                    | None -> ());
                   (match parse_lines_v code_variant dbg lines with POk b -> Some (sys_names b) | _ -> None)
               | _ -> None in
           let text_of k = match Sexp.field_opt k fs with Some [t] -> Some (Sexp.atom t) | _ -> None in
           let pred1 = predicted msys0 (signames_of (Sexp.field "sys0" fs) d0) (text_of "text1") "first" in
           let pred2 = predicted (sys_of_isys d1 s1) (signames_of f1 d1) (text_of "text2") "second" in
           let cycles = [ (names0, names_of (Sexp.field1 "names1" fs), (if parsed0 then pred1 else None), "first");
                          (names_of (Sexp.field1 "names1" fs), (try names_of (Sexp.field1 "names2" fs) with _ -> None), pred2, "second") ] in
           List.iter (fun (na, nb, pred, _) ->
           (match na, nb with
            | Some (i1, st1, o1), Some (i2, st2, o2) ->
                let drift a b =
                  let is_suffix_of x y =
                    String.length y > String.length x && String.sub y 0 (String.length x) = x &&
                    (let rest = String.sub y (String.length x) (String.length y - String.length x) in
                     String.length rest >= 2 && rest.[0] = '_' &&
                     (let ok = ref true in String.iteri (fun k c -> if k > 0 && not ((c >= '0' && c <= '9') || c = '_') then ok := false) rest; !ok)) in
                  is_suffix_of a b || is_suffix_of b a in
                let roots = List.map snd s1.i_outputs @ s1.i_bads @ s1.i_constraints in
                (* names the reader generated itself are not explicit names: they may be renumbered *)
                let is_autogen a = is_autogen_name (big_coqstr a) in
                (* first explicit name that did not survive; [excused] = the unmodified pair loses it as well *)
                let first_diff l1 l2 (pl : string list option) = let rec go k = function
                    | a :: l, b :: m ->
                        if a <> b && not (is_autogen a) then
                          Some (k, a, b, (match pl with Some p when List.length p = List.length l2 -> List.nth p k <> a | Some _ -> false | None -> true))
                        else go (k + 1) (l, m)
                    | _ -> None in go 0 (l1, l2) in
                let (pi, ps, po) = match pred with Some (a, b, c) -> (Some a, Some b, Some c) | None -> (None, None, None) in
                if List.length i1 <> List.length i2 || List.length st1 <> List.length st2 || List.length o1 <> List.length o2 then note "names:count"
                else begin
                  (match first_diff i1 i2 pi with
                   | Some (_, _, _, false) -> note "names:lost:input"
                   | Some (k, a, b, true) ->
                       let sym = List.nth s1.i_inputs k in
                       (* an input that carries the name of an output referring to it directly (a state without init/next that the
                          output line named): the writer cannot put the name on the declaration without renaming the output, and the
                          reader keeps the default name of an input that is also an output on purpose (regression tests of the
                          repository: parse_sha3_keccak_and_check_that_all_anonymous_inputs_are_there) *)
                       if List.exists (fun (n, e) -> e = sym && big_ocamlstr n = a) s1.i_outputs then note "names:inputs:same-name-as-output"
                       else if List.mem sym roots then note "names:inputs:referenced-by-label"
                       else if String.contains a '$' then note "names:inputs:dollar-cleanup"
                       else if drift a b then note "names:inputs:suffix-drift" else note "names:inputs:other"
                   | None -> ());
                  (match first_diff st1 st2 ps with
                   | Some (_, _, _, false) -> note "names:lost:state"
                   | Some (k, a, b, true) ->
                       let (sym, _, _) = List.nth s1.i_states k in
                       (* with patches/0008 the writer has no alias line for an array: an array state that an output refers to
                          directly takes the output's name, as it did before the alias lines existed *)
                       if writer_variant.w_no_array_alias && (match type_of (g1 sym) with TArr _ -> true | _ -> false) && List.mem sym roots
                       then note "names:states:array-referenced-by-label"
                       else if String.contains a '$' then note "names:states:dollar-cleanup"
                       else if drift a b && List.exists (fun p -> String.length a > String.length p && String.sub a 0 (String.length p) = p)
                                 ["_state_"; "_input_"; "_output_"; "_bad_"; "_constraint_"]
                       then note "names:states:default-name-collision"
                       else if drift a b then note "names:states:suffix-drift" else note "names:states:other"
                   | None -> ());
                  (match first_diff o1 o2 po with
                   | Some (_, _, _, false) -> note "names:lost:output"
                   | Some (_, a, b, true) -> if drift a b then note "names:outputs:suffix-drift" else note "names:outputs:other"
                   | None -> ())
                end
            | Some _, None -> if na <> names0 then note "second-cycle-failed"
            | _ -> ())) cycles;
           (* the model's round trip against the implementation's, modulo symbol names *)
           let corr =
             match mser with
             | Some (POk lines) ->
                 (match parse_lines_v code_variant dbg lines with
                  | POk msys1 ->
                      (* rename the model's symbols positionally to the implementation's names *)
                      let msyms = msys1.s_inputs @ List.map (fun s -> s.st_sym) msys1.s_states in
                      let isyms = List.map g1 s1.i_inputs @ List.map (fun (sy, _, _) -> g1 sy) s1.i_states in
                      if List.length msyms <> List.length isyms then Some "model round trip: symbol count"
                      else begin
                        let ren = List.map2 (fun m i -> (m, sym_name i)) msyms isyms in
                        match compare_sys d1 { s1 with i_outputs = List.map (fun (_, e) -> ([], e)) s1.i_outputs }
                                { (rename_sys ren msys1) with s_outputs = List.map (fun (_, e) -> ([], e)) msys1.s_outputs |> List.map (fun (n, e) -> (n, rename ren e)) } [] with
                        | None -> None
                        | Some w -> Some ("model round trip: " ^ w)
                      end
                  | PErr -> Some "model round trip: the model reader rejects the model writer's lines"
                  | PPanic _ -> Some "model round trip: panic")
             | Some _ -> Some ("writer class: impl ok, model " ^ mclass)
             | None -> None in
           (match !problem, corr with
            | Some "skip", None -> Registry.result ~id ~status:"skip" ~key:"too-large-to-evaluate" ()
            | Some k, _ when k <> "skip" -> Registry.result ~id ~status:"fail" ~key:k ~detail:"read(write(sys)) differs from sys" ()
            | _, Some w -> Registry.result ~id ~status:"diff" ~key:"model" ~detail:w ()
            | _, None ->
                (match !text_problem with
                 | Some w -> Registry.result ~id ~status:"diff" ~key:"writer-text" ~detail:w ()
                 | None -> Registry.result ~id ~status:"ok" ~key:(if small then "ok" else "ok-impl-only") ()))
       | Sexp.List (Sexp.Atom "err" :: _) -> Registry.result ~id ~status:"fail" ~key:"reparse-rejected" ~detail:"parse_str reports errors on the writer's own output" ()
       | Sexp.List (Sexp.Atom "panic" :: loc :: _) -> Registry.result ~id ~status:"fail" ~key:"reparse-panic" ~detail:("parse_str panics on the writer's own output at " ^ Sexp.atom loc) ()
       | _ -> raise (Sexp.Parse_error "sys1"))

let () = Registry.register "C09" handle
