(* C12: expression references are canonical and stable.  Case (one construction history):
   (case ID (ops OP..) (res R..) (obs O..) (final O..) (strings S..) (tf0 T F) (tf T F) (shadow V..))
   see harness/src/c12.rs for the pieces.

   Correspondence corr_C12: the extracted model (Model.cx_trace from Model.cx_default) must return
   exactly the same reference / panic for every call, and end with exactly the same table
   (nodes incl. interner indices, types, symbol names, literal words, is_true/is_false), strings
   and true/false references.

   Property oracle (extracted predicates of Model/ContextOracle.v, evaluated on the IMPLEMENTATION's
   observations only): keys pairwise distinct, every observation made when a call returned still
   holds at the end (node, type, name, value), true/false fixed, is_true/is_false agree with the
   value, every returned reference denotes the requested expression.  Plus, in plain OCaml: the same
   call text always returned the same result; the harness' shadow structural map saw no violation;
   every literal handed to bv_lit had canonical words (hypothesis of lit_canonical, checked here
   because the values come out of baa computations). *)
open Model
open Conv

let fast_num (s : string) : n =
  if String.length s <= 17 then n_of_int (int_of_string s) else n_of_dec s
let fnum (x : Sexp.t) : n = fast_num (Sexp.atom x)
let words (x : Sexp.t) : n list = List.map fnum (Sexp.list x)
let value (w : Sexp.t) (ws : Sexp.t) : n * n list = (fnum w, words ws)

let binop_of = function
  | "and" -> CxAnd | "or" -> CxOr | "xor" -> CxXor | "shl" -> CxShl | "ashr" -> CxAshr | "lshr" -> CxLshr
  | "add" -> CxAdd | "mul" -> CxMul | "sdiv" -> CxSDiv | "udiv" -> CxUDiv | "smod" -> CxSMod | "srem" -> CxSRem
  | "urem" -> CxURem | "sub" -> CxSub | s -> raise (Sexp.Parse_error ("binop " ^ s))
let binop_name = function
  | CxAnd -> "and" | CxOr -> "or" | CxXor -> "xor" | CxShl -> "shl" | CxAshr -> "ashr" | CxLshr -> "lshr"
  | CxAdd -> "add" | CxMul -> "mul" | CxSDiv -> "sdiv" | CxUDiv -> "udiv" | CxSMod -> "smod" | CxSRem -> "srem"
  | CxURem -> "urem" | CxSub -> "sub"

exception Skip of string

(* the entries of a lit(array) call: (default, entries in implementation order); checked against the input value *)
let litarr_order (iw : Sexp.t) (dw : Sexp.t) (input : Sexp.t) (order : Sexp.t list) =
  let pair = function Sexp.List [i; d] -> (i, d) | x -> raise (Sexp.Parse_error ("entry " ^ Sexp.to_string x)) in
  match order, input with
  | [], Sexp.List (Sexp.Atom "sparse" :: d :: es) -> (d, List.map pair es, true)
  | [], _ -> raise (Skip "lit(array) without observed order")
  | d :: es, Sexp.List (Sexp.Atom "sparse" :: d0 :: es0) ->
      let es = List.map pair es and es0 = List.map pair es0 in
      let norm l = List.sort compare (List.map (fun (i, v) -> (Sexp.to_string i, Sexp.to_string v)) l) in
      (d, es, d = d0 && norm es = norm es0)
  | d :: es, Sexp.List (Sexp.Atom "dense" :: table) ->
      let es = List.map pair es in
      let idx = List.map (fun (i, _) -> Sexp.to_string i) es in
      let distinct = List.length (List.sort_uniq compare idx) = List.length idx in
      let ok = ref (distinct && List.for_all (fun (_, v) -> v <> d) es) in
      List.iteri (fun i v ->
          let key = Printf.sprintf "(%d)" i in
          let got = match List.find_opt (fun (j, _) -> Sexp.to_string j = key) es with Some (_, x) -> x | None -> d in
          if got <> v then ok := false) table;
      (d, es, !ok)
  | _ -> raise (Sexp.Parse_error "litarr")

let rec op_of_sexp (x : Sexp.t) : cx_op * bool (* lit(array) consistent with its input *) =
  let open Sexp in
  let r = fnum in
  match x with
  | List [Atom "bld"; o] -> op_of_sexp o
  | List [Atom "str"; s] -> (CoString (name s), true)
  | List [Atom "bvsym"; s; w] -> (CoBvSymbol (name s, r w), true)
  | List [Atom "arrsym"; s; iw; dw] -> (CoArraySymbol (name s, r iw, r dw), true)
  | List [Atom "symbv"; n; w] -> (CoSymbol (r n, CtBV (r w)), true)
  | List [Atom "symarr"; n; iw; dw] -> (CoSymbol (r n, CtArr (r iw, r dw)), true)
  | List (Atom "lit" :: w :: ws :: _) -> (CoBvLit (r w, words ws), true)
  | List [Atom "bitvecval"; v; w] -> (CoBitVecVal (r v, r w), true)
  | List [Atom "zero"; w] -> (CoZero (r w), true)
  | List [Atom "one"; w] -> (CoOne (r w), true)
  | List [Atom "ones"; w] -> (CoOnes (r w), true)
  | List [Atom "zeroarr"; iw; dw] -> (CoZeroArray (r iw, r dw), true)
  | List [Atom "litarr"; _; _; List (Atom "dense" :: _); List [Atom "order"]] ->
      (* nothing was stored: baa's dense -> sparse conversion panicked inside Context::lit *)
      (CoLitArrUnconvertible, true)
  | List [Atom "litarr"; iw; dw; input; List (Atom "order" :: order)] ->
      let (d, es, ok) = litarr_order iw dw input order in
      (CoLitArr (r iw, value dw d, List.map (fun (i, v) -> (value iw i, value dw v)) es), ok)
  | List [Atom "true"] -> (CoGetTrue, true)
  | List [Atom "false"] -> (CoGetFalse, true)
  | List [Atom "distinct"; a; b] -> (CoDistinct (r a, r b), true)
  | List [Atom "equal"; a; b] -> (CoEqual (r a, r b), true)
  | List [Atom "ite"; c; t; f] -> (CoIte (r c, r t, r f), true)
  | List [Atom "implies"; a; b] -> (CoImplies (r a, r b), true)
  | List [Atom "gt"; a; b] -> (CoGreater (r a, r b), true)
  | List [Atom "sgt"; a; b] -> (CoGreaterSigned (r a, r b), true)
  | List [Atom "ge"; a; b] -> (CoGreaterEq (r a, r b), true)
  | List [Atom "sge"; a; b] -> (CoGreaterEqSigned (r a, r b), true)
  | List [Atom "not"; e] -> (CoNot (r e), true)
  | List [Atom "neg"; e] -> (CoNegate (r e), true)
  | List [Atom "bin"; Atom o; a; b] -> (CoBin (binop_of o, r a, r b), true)
  | List [Atom "xor3"; a; b; c] -> (CoXor3 (r a, r b, r c), true)
  | List [Atom "maj"; a; b; c] -> (CoMajority (r a, r b, r c), true)
  | List [Atom "concat"; a; b] -> (CoConcat (r a, r b), true)
  | List [Atom "slice"; e; hi; lo] -> (CoSlice (r e, r hi, r lo), true)
  | List [Atom "zext"; e; by] -> (CoZeroExt (r e, r by), true)
  | List [Atom "sext"; e; by] -> (CoSignExt (r e, r by), true)
  | List [Atom "ext"; e; by; Atom s] -> (CoExtend (r e, r by, s = "1"), true)
  | List [Atom "store"; a; i; d] -> (CoArrayStore (r a, r i, r d), true)
  | List [Atom "aconst"; e; iw] -> (CoArrayConst (r e, r iw), true)
  | List [Atom "read"; a; i] -> (CoArrayRead (r a, r i), true)
  | _ -> raise (Sexp.Parse_error ("bad op " ^ Sexp.to_string x))

let rec op_tag (x : Sexp.t) : string =
  match x with
  | Sexp.List [Sexp.Atom "bld"; o] -> op_tag o
  | Sexp.List [Sexp.Atom "bin"; Sexp.Atom o; _; _] -> o
  | Sexp.List (Sexp.Atom t :: _) -> t
  | _ -> "?"

(* the call text that identifies "the same call": builder wrapper, literal route and entry point removed *)
let rec call_text (x : Sexp.t) : string =
  match x with
  | Sexp.List [Sexp.Atom "bld"; o] -> call_text o
  | Sexp.List (Sexp.Atom "lit" :: w :: ws :: _) -> Sexp.to_string (Sexp.List [Sexp.Atom "lit"; w; ws])
  | _ -> Sexp.to_string x

(* ---- nodes <-> S-expressions (same shapes as harness node_dump) *)
let d v = Sexp.Atom (dec_of_n v)
let sexp_of_node (n : cx_node) : Sexp.t =
  let open Sexp in
  let l tag xs = List (Atom tag :: List.map d xs) in
  match n with
  | CnBVSymbol (s, w) -> l "bvsym" [s; w]
  | CnBVLiteral (i, w) -> l "lit" [i; w]
  | CnBVZeroExt (e, b, w) -> l "zext" [e; b; w]
  | CnBVSignExt (e, b, w) -> l "sext" [e; b; w]
  | CnBVSlice (e, hi, lo) -> l "slice" [e; hi; lo]
  | CnBVNot (e, w) -> l "not" [e; w]
  | CnBVNegate (e, w) -> l "neg" [e; w]
  | CnBVEqual (a, b) -> l "eq" [a; b]
  | CnBVImplies (a, b) -> l "implies" [a; b]
  | CnBVGreater (a, b) -> l "ugt" [a; b]
  | CnBVGreaterSigned (a, b, w) -> l "sgt" [a; b; w]
  | CnBVGreaterEqual (a, b) -> l "uge" [a; b]
  | CnBVGreaterEqualSigned (a, b, w) -> l "sge" [a; b; w]
  | CnBVConcat (a, b, w) -> l "concat" [a; b; w]
  | CnBVBin (o, a, b, w) -> List (Atom "bin" :: Atom (binop_name o) :: List.map d [a; b; w])
  | CnBVArrayRead (a, i, w) -> l "read" [a; i; w]
  | CnBVIte (c, t, f) -> l "ite" [c; t; f]
  | CnArraySymbol (s, iw, dw) -> l "arrsym" [s; iw; dw]
  | CnArrayConstant (e, iw, dw) -> l "aconst" [e; iw; dw]
  | CnArrayEqual (a, b) -> l "aeq" [a; b]
  | CnArrayStore (a, i, dd) -> l "store" [a; i; dd]
  | CnArrayIte (c, t, f) -> l "aite" [c; t; f]

let node_of_sexp (x : Sexp.t) : cx_node =
  let open Sexp in
  let r = fnum in
  match x with
  | List [Atom "bvsym"; s; w] -> CnBVSymbol (r s, r w)
  | List [Atom "lit"; i; w] -> CnBVLiteral (r i, r w)
  | List [Atom "zext"; e; b; w] -> CnBVZeroExt (r e, r b, r w)
  | List [Atom "sext"; e; b; w] -> CnBVSignExt (r e, r b, r w)
  | List [Atom "slice"; e; hi; lo] -> CnBVSlice (r e, r hi, r lo)
  | List [Atom "not"; e; w] -> CnBVNot (r e, r w)
  | List [Atom "neg"; e; w] -> CnBVNegate (r e, r w)
  | List [Atom "eq"; a; b] -> CnBVEqual (r a, r b)
  | List [Atom "implies"; a; b] -> CnBVImplies (r a, r b)
  | List [Atom "ugt"; a; b] -> CnBVGreater (r a, r b)
  | List [Atom "sgt"; a; b; w] -> CnBVGreaterSigned (r a, r b, r w)
  | List [Atom "uge"; a; b] -> CnBVGreaterEqual (r a, r b)
  | List [Atom "sge"; a; b; w] -> CnBVGreaterEqualSigned (r a, r b, r w)
  | List [Atom "concat"; a; b; w] -> CnBVConcat (r a, r b, r w)
  | List [Atom "bin"; Atom o; a; b; w] -> CnBVBin (binop_of o, r a, r b, r w)
  | List [Atom "read"; a; i; w] -> CnBVArrayRead (r a, r i, r w)
  | List [Atom "ite"; c; t; f] -> CnBVIte (r c, r t, r f)
  | List [Atom "arrsym"; s; iw; dw] -> CnArraySymbol (r s, r iw, r dw)
  | List [Atom "aconst"; e; iw; dw] -> CnArrayConstant (r e, r iw, r dw)
  | List [Atom "aeq"; a; b] -> CnArrayEqual (r a, r b)
  | List [Atom "store"; a; i; dd] -> CnArrayStore (r a, r i, r dd)
  | List [Atom "aite"; c; t; f] -> CnArrayIte (r c, r t, r f)
  | _ -> raise (Sexp.Parse_error ("bad node " ^ Sexp.to_string x))

let sexp_of_type : cx_ty cx_res -> Sexp.t = function
  | CxOk (CtBV w) -> Sexp.List [Sexp.Atom "bv"; d w]
  | CxOk (CtArr (iw, dw)) -> Sexp.List [Sexp.Atom "arr"; d iw; d dw]
  | CxPanic -> Sexp.List [Sexp.Atom "p"]
  | CxDiverge -> Sexp.List [Sexp.Atom "diverge"]

let type_of_sexp (x : Sexp.t) : cx_ty cx_res =
  match x with
  | Sexp.List [Sexp.Atom "bv"; w] -> CxOk (CtBV (fnum w))
  | Sexp.List [Sexp.Atom "arr"; iw; dw] -> CxOk (CtArr (fnum iw, fnum dw))
  | _ -> CxPanic

let b01 b = Sexp.Atom (if b then "1" else "0")

(* the model's observation (NODE TYPE EXTRA) of reference i *)
let model_obs (c : cx) (nodes : cx_node array) (i : int) : Sexp.t =
  let n = nodes.(i) in
  let extra =
    match n with
    | CnBVSymbol _ | CnArraySymbol _ ->
        (match cx_symbol_name c (n_of_int i) with
         | Some s -> Sexp.List [Sexp.Atom "name"; Sexp.Str (ocamlstr s)]
         | None -> Sexp.List [Sexp.Atom "noname"])
    | CnBVLiteral (idx, w) ->
        let ws = cx_words_at c.cx_values idx w in
        Sexp.List [Sexp.Atom "val"; d w; Sexp.List (List.map d ws); b01 (cx_is_true n); b01 (cx_is_false n);
                   b01 (List.for_all (fun x -> x = N0) ws)]
    | _ -> Sexp.Atom "-" in
  Sexp.List [sexp_of_node n; sexp_of_type (cx_type_of c.cx_exprs (n_of_int i)); extra]

(* the implementation's observation as oracle input *)
let key_of_obs (o : Sexp.t) : cx_key * cx_ty cx_res * (bool * bool) =
  match o with
  | Sexp.List [node; ty; extra] ->
      let n = node_of_sexp node in
      let t = type_of_sexp ty in
      (match n, extra with
       | CnBVSymbol (_, w), Sexp.List [Sexp.Atom "name"; s] -> (CkSym (Some (name s), w), t, (false, false))
       | CnBVSymbol (_, w), _ -> (CkSym (None, w), t, (false, false))
       | CnArraySymbol (_, iw, dw), Sexp.List [Sexp.Atom "name"; s] -> (CkArrSym (Some (name s), iw, dw), t, (false, false))
       | CnArraySymbol (_, iw, dw), _ -> (CkArrSym (None, iw, dw), t, (false, false))
       | CnBVLiteral (_, _), Sexp.List [Sexp.Atom "val"; w; ws; it; isf; _] ->
           (CkLit (fnum w, words ws), t, (Sexp.atom it = "1", Sexp.atom isf = "1"))
       | CnBVLiteral (_, _), _ -> raise (Sexp.Parse_error "literal without value")
       | other, _ -> (CkNode other, t, (false, false)))
  | _ -> raise (Sexp.Parse_error ("bad observation " ^ Sexp.to_string o))

let handle (x : Sexp.t) : string =
  let id, fs = match x with Sexp.List (Sexp.Atom "case" :: id :: rest) -> (Sexp.atom id, rest) | _ -> raise (Sexp.Parse_error "case") in
  try
    let ops_s = Sexp.field "ops" fs in
    let res_s = Sexp.field "res" fs in
    let obs_s = Sexp.field "obs" fs in
    let final_s = Array.of_list (Sexp.field "final" fs) in
    let strings_s = Sexp.field "strings" fs in
    let shadow = Sexp.field "shadow" fs in
    let tf0 = List.map Sexp.atom (Sexp.field "tf0" fs) and tf = List.map Sexp.atom (Sexp.field "tf" fs) in
    let parsed = List.map op_of_sexp ops_s in
    let ops = List.map fst parsed in
    let diffs = ref [] and fails = ref [] in
    let diff k dd = diffs := (k, dd) :: !diffs and fail k dd = fails := (k, dd) :: !fails in
    List.iter2 (fun (_, ok) s -> if not ok then diff "litarr-not-the-input-value" (Sexp.to_string s)) parsed ops_s;
    (* ---------------- model *)
    let (c, results) = cx_trace ops cx_default in
    let nodes = Array.of_list c.cx_exprs in
    (* 1. every returned reference *)
    let res_of_model = function
      | CxOk (CxExpr r) -> Sexp.List [Sexp.Atom "e"; d r]
      | CxOk (CxStr r) -> Sexp.List [Sexp.Atom "s"; d r]
      | CxPanic -> Sexp.List [Sexp.Atom "p"]
      | CxDiverge -> Sexp.List [Sexp.Atom "diverge"] in
    let strip = function Sexp.List [Sexp.Atom "p"; _] -> Sexp.List [Sexp.Atom "p"] | r -> r in
    let rec cmp i os rs ms =
      match os, rs, ms with
      | o :: os', r :: rs', m :: ms' ->
          if strip r <> res_of_model m then
            diff ("result:" ^ op_tag o) (Printf.sprintf "call %d %s: impl=%s model=%s" i (Sexp.to_string o) (Sexp.to_string r) (Sexp.to_string (res_of_model m)));
          cmp (i + 1) os' rs' ms'
      | [], [], [] -> ()
      | _ -> diff "lengths" "ops/res/model results differ in length" in
    cmp 0 ops_s res_s results;
    (* 2. the final table *)
    if Array.length final_s <> Array.length nodes then
      diff "table-size" (Printf.sprintf "impl=%d model=%d" (Array.length final_s) (Array.length nodes))
    else
      Array.iteri (fun i o ->
          let m = model_obs c nodes i in
          if o <> m then diff "final-entry" (Printf.sprintf "ref %d: impl=%s model=%s" i (Sexp.to_string o) (Sexp.to_string m))) final_s;
    (* 3. strings, true/false *)
    let mstr = List.map (fun s -> Sexp.Str (ocamlstr s)) c.cx_strings in
    if mstr <> strings_s then diff "strings" (Printf.sprintf "impl=%s model=%s" (Sexp.to_string (Sexp.List strings_s)) (Sexp.to_string (Sexp.List mstr)));
    (* 4. sampled references unfolded into trees: the shared tree dumper of the harness (dump_expr over ctx[e])
          against Model.cx_tree, compared in the shared tree type of Model/Expr.v *)
    let rec nat_of_int k = if k <= 0 then O else S (nat_of_int (k - 1)) in
    let all_canonical = List.for_all (fun o ->
        match o with
        | Sexp.List (Sexp.Atom "lit" :: w :: ws :: _) | Sexp.List [Sexp.Atom "bld"; Sexp.List (Sexp.Atom "lit" :: w :: ws :: _)] ->
            let w = fnum w and ws = words ws in
            let v = cx_value_of_words ws in not (N.leb (N.pow n_two w) v) && cx_words_of w v = ws
        | _ -> true) ops_s in
    if all_canonical then
      List.iter (function
          | Sexp.List [r; tree] ->
              let impl_tree = expr_of_sexp tree in
              (match cx_tree (nat_of_int 320) c (fnum r) with
               | Some t -> if not (expr_eqb t impl_tree) then
                     diff "tree" (Printf.sprintf "ref %s: impl=%s model=%s" (Sexp.atom r) (Sexp.to_string tree) (Sexp.to_string (sexp_of_expr t)))
               | None -> diff "tree" (Printf.sprintf "ref %s: the model has no tree, impl=%s" (Sexp.atom r) (Sexp.to_string tree)))
          | _ -> ()) (match Sexp.field_opt "trees" fs with Some l -> l | None -> []);
    let mtf = [dec_of_n c.cx_true; dec_of_n c.cx_false] in
    if tf <> mtf || tf0 <> mtf then diff "true-false" (String.concat " " (tf0 @ tf @ mtf));
    (* ---------------- property oracle on the implementation's observations *)
    let fin = Array.to_list (Array.map key_of_obs final_s) in
    let keys = List.map (fun (k, _, _) -> k) fin in
    let types = List.map (fun (_, t, _) -> t) fin in
    let flags = List.map (fun (_, _, f) -> f) fin in
    let strings = List.map name strings_s in
    if not (cx_keys_nodup keys) then fail "same-structure-two-references" "two references of the final table denote the same expression";
    let returned = List.filter_map (fun (r, o) ->
        match r, o with
        | Sexp.List [Sexp.Atom "e"; n], (Sexp.List _ as ob) -> Some (fnum n, ob)
        | _ -> None) (List.combine res_s obs_s) in
    if not (cx_obs_stable keys (List.map (fun (r, ob) -> let (k, _, _) = key_of_obs ob in (r, k)) returned)) then
      fail "reference-changed-meaning" "a reference denotes another expression at the end than when it was returned";
    List.iter (fun (r, ob) ->
        let i = int_of_n r in
        if i >= Array.length final_s || final_s.(i) <> ob then
          fail "reference-changed-meaning" (Printf.sprintf "ref %d: when returned %s, at the end %s" i (Sexp.to_string ob)
                                              (if i < Array.length final_s then Sexp.to_string final_s.(i) else "(missing)"))) returned;
    let t = n_of_dec (List.nth tf 0) and f = n_of_dec (List.nth tf 1) in
    if not (cx_tf_ok keys t f) || tf0 <> tf then fail "true-false-not-fixed" (String.concat " " (tf0 @ tf));
    if not (cx_all_flags_ok keys flags) then fail "is_true-is_false-disagree-with-value" "";
    (* every returned reference denotes the requested expression *)
    let rec den i os rs ps =
      match os, rs, ps with
      | o :: os', r :: rs', (op, _) :: ps' ->
          let out = match r with
            | Sexp.List [Sexp.Atom "e"; n] -> Some (CxExpr (fnum n))
            | Sexp.List [Sexp.Atom "s"; n] -> Some (CxStr (fnum n))
            | _ -> None in
          (match out with
           | Some out -> if not (cx_denotes keys types strings op out) then
                 fail ("returned-reference-does-not-denote-the-request:" ^ op_tag o)
                   (Printf.sprintf "call %d %s returned %s" i (Sexp.to_string o) (Sexp.to_string r))
           | None -> ());
          den (i + 1) os' rs' ps'
      | _ -> () in
    den 0 ops_s res_s parsed;
    (* the same call always returns the same result *)
    let seen = Hashtbl.create 1024 in
    List.iter2 (fun o r ->
        match r with
        | Sexp.List [Sexp.Atom "p"; _] -> ()
        | _ ->
            let k = call_text o in
            (match Hashtbl.find_opt seen k with
             | Some r0 -> if r0 <> r then fail ("same-call-different-reference:" ^ op_tag o)
                     (Printf.sprintf "%s returned %s and later %s" k (Sexp.to_string r0) (Sexp.to_string r))
             | None -> Hashtbl.add seen k r)) ops_s res_s;
    (* hypothesis of lit_canonical: the words handed to bv_lit are canonical.  A literal whose words are
       not canonical is a failure of its own class (keyed by the computation that produced the value);
       consequences of it (the shadow map seeing two references for one (width, bits) pair) get the same key. *)
    let canonical w ws = let v = cx_value_of_words ws in not (N.leb (N.pow n_two w) v) && cx_words_of w v = ws in
    let dirty = ref [] in
    let explained = ref [] in
    List.iter (fun o ->
        match o with
        | Sexp.List (Sexp.Atom "lit" :: w :: ws :: Sexp.Atom route :: _) | Sexp.List [Sexp.Atom "bld"; Sexp.List (Sexp.Atom "lit" :: w :: ws :: Sexp.Atom route :: _)] ->
            let w = fnum w and ws = words ws in
            if not (canonical w ws) then begin
              (* the value came straight out of baa's shift_left by a whole number of words (recorded dependency
                 defect); the same through patronus' own folder / evaluator keeps its route name *)
              let route = if route = "shl_words" then "baa-shift_left-by-whole-words" else route in
              dirty := ((w, ws), route) :: !dirty;
              explained := ("noncanonical-literal-words:" ^ route, Sexp.to_string o) :: !explained
            end
        | _ -> ()) ops_s;
    (* a panic inside baa while Context::lit converts a dense array value: not a reference problem, but a
       crash reachable through the public builder API; recorded with its location *)
    List.iter2 (fun o r ->
        match o, r with
        | Sexp.List (Sexp.Atom "litarr" :: _), Sexp.List [Sexp.Atom "p"; loc] ->
            explained := ("panic@" ^ Sexp.atom loc ^ ":lit(array)", Sexp.to_string o) :: !explained
        | _ -> ()) ops_s res_s;
    (* the harness' shadow structural map *)
    let lit_words_of_ref r =
      if r < Array.length final_s then
        (match key_of_obs final_s.(r) with (CkLit (w, ws), _, _) -> Some (w, ws) | _ -> None) else None in
    List.iter (fun v ->
        let generic () = fail ("shadow:" ^ op_tag v) (Sexp.to_string v) in
        match v with
        | Sexp.List [Sexp.Atom "same-structure-two-refs"; _; r1; r2] ->
            let a = lit_words_of_ref (int_of_string (Sexp.atom r1)) and b = lit_words_of_ref (int_of_string (Sexp.atom r2)) in
            let route_of x = match x with Some k -> List.assoc_opt k !dirty | None -> None in
            (match route_of a, route_of b with
             | Some route, _ | _, Some route ->
                 explained := ("noncanonical-literal-words:" ^ route,
                               Printf.sprintf "two references for one (width, bits): %s" (Sexp.to_string v)) :: !explained
             | None, None -> generic ())
        | _ -> generic ()) shadow;
    let n_ops = List.length ops in
    let bucket k = if k < 10 then "<10" else if k < 100 then "<100" else if k < 1000 then "<1e3" else if k < 10000 then "<1e4" else if k < 100000 then "<1e5" else ">=1e5" in
    (* unexplained failures first: a recorded finding never hides another failure of the same history *)
    match List.rev !fails @ List.rev !explained, List.rev !diffs with
    | (k, dd) :: _, _ -> Registry.result ~id ~status:"fail" ~key:k ~detail:dd ()
    | [], (k, dd) :: rest -> Registry.result ~id ~status:"diff" ~key:k ~detail:(Printf.sprintf "%s (+%d more)" dd (List.length rest)) ()
    | [], [] -> Registry.result ~id ~status:"ok" ~key:(Printf.sprintf "calls%s-nodes%s" (bucket n_ops) (bucket (Array.length nodes))) ()
  with Skip why -> Registry.result ~id ~status:"skip" ~key:why ()

let () = Registry.register "C12" handle
