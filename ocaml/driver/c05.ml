(* C05: the SMT-LIB writer.  Cases (see harness/src/c05.rs):
   (case ID (kind expr) (expr E) (syms (S "decl text")..) (text "..") (envs (env (bvenv ..) (arrenv ..))..) (indices b..) (solver ("z3" "out")..) ..)
   (case ID (kind cmd) (cmd C) (syms ..) (text "..") ..)
   correspondence : tokens of the implementation's text (lexed and read by the extracted reference front end Model.parse_text)
                    = Model.ser / Model.ser_cmd; when the text cannot be lexed (names outside SMT-LIB) the comparison is textual,
                    white space removed
   property oracle: Model.cmd_check accepts the implementation's declarations; Model.scheck gives the implementation's term the sort
                    sort_for (type_of e) false in that context; Model.seval of the implementation's term under each assignment equals
                    sval_for (ebv/earr); in the thorough tier the values z3 / cvc5 report for the same text are compared too. *)
open Model
open Conv

(* Which variant of the model mirrors the code under test (Model/SmtSer.v, [variant]):
     Cur = /repo as it is;
     Fix = /repo with patches/0003 .. 0015 applied (writer: 0014 reserved words quoted, 0015 set-info; reader, C14: the others).
   C14's driver uses this constant too: flip it here, once, when the patches are committed. *)
let code_variant : variant = Fix2
let ser = ser code_variant
let ser_cmd = ser_cmd code_variant
let escape_id = escape_id code_variant
let is_simple_id = is_simple_id code_variant
let name_ok = name_ok code_variant

(* result lines are tab separated, one per case: no raw control characters in key / detail *)
let clean (s : string) : string =
  let b = Buffer.create (String.length s) in
  String.iter (fun c ->
      let k = Char.code c in
      if c = '\n' || c = '\t' || c = '\r' then Buffer.add_char b ' '
      else if k < 32 || k > 126 then Buffer.add_string b (Printf.sprintf "\\x%02x" k)
      else Buffer.add_char b c) s;
  Buffer.contents b
let result ~id ~status ~key ?(detail = "") () =
  let detail = if String.length detail > 1500 then String.sub detail 0 1500 ^ "..." else detail in
  Registry.result ~id ~status ~key:(clean key) ~detail:(clean detail) ()

let s2c = coqstr
let c2s = ocamlstr

(* ---- printing of reference S-expressions (for details and for the textual fallback) *)
let rec sx_to_string (t : sx) : string =
  match t with
  | SxAtom a -> c2s a
  | SxList l -> "(" ^ String.concat " " (List.map sx_to_string l) ^ ")"

let strip_ws (s : string) : string =
  let b = Buffer.create (String.length s) in
  String.iter (fun c -> if c <> ' ' && c <> '\n' && c <> '\t' && c <> '\r' then Buffer.add_char b c) s;
  Buffer.contents b

let rec sx_equal (a : sx) (b : sx) : bool =
  match a, b with
  | SxAtom x, SxAtom y -> x = y
  | SxList x, SxList y -> List.length x = List.length y && List.for_all2 sx_equal x y
  | _ -> false

(* ---- name classes *)
type ncls = NOk | NReserved | NOutside

let classify_name (n : char list) : ncls =
  if name_ok n then NOk
  else if is_reserved n && is_simple_id n then NReserved
  else NOutside

let sym_name (e : expr) : char list =
  match e with BVSymbol (n, _) -> n | ArraySymbol (n, _, _) -> n | _ -> raise (Sexp.Parse_error "symbol expected")

(* ---- values *)
let show_val (v : sval) (indices : n list) : string =
  match v with
  | SVBool b -> if b then "true" else "false"
  | SVBits (w, x) -> Printf.sprintf "(bv %d b%s)" (int_of_n w) (bits_of_n_loose (int_of_n w) x)
  | SVArr (i, d, f) ->
      let sb = function SoBool -> "Bool" | SoBV w -> Printf.sprintf "bv%d" (int_of_n w) | SoArr _ -> "arr" in
      Printf.sprintf "(arr %s %s%s)" (sb i) (sb d) (String.concat "" (List.map (fun k -> " " ^ dec_of_n (f k)) indices))

let show_opt_val o indices = match o with Some v -> show_val v indices | None -> "(error)"

let rec show_sort = function
  | SoBool -> "Bool"
  | SoBV w -> Printf.sprintf "(_ BitVec %d)" (int_of_n w)
  | SoArr (i, d) -> Printf.sprintf "(Array %s %s)" (show_sort i) (show_sort d)

(* ---- one result *)
exception Verdict of string * string * string (* status, key, detail *)

let root_tag (x : Sexp.t) : string = match x with Sexp.List (Sexp.Atom t :: _) -> t | _ -> "?"

(* declarations.  Pass 1 (correspondence + name classes) never fails; pass 2 is the oracle: the reference
   front end must accept every declaration the implementation wrote and record the right sort. *)
let decl_entries (syms : Sexp.t list) : (expr * string) list =
  List.map (function
      | Sexp.List [se; txt] -> (expr_of_sexp se, Sexp.atom txt)
      | _ -> raise (Sexp.Parse_error "syms entry")) syms

let worst_class (names : char list list) : ncls =
  List.fold_left (fun acc n ->
      match classify_name n, acc with
      | NOutside, _ -> NOutside
      | NReserved, NOk -> NReserved
      | _, a -> a) NOk names

let decls_correspond (decls : (expr * string) list) : bool =
  List.for_all (fun (sym, text) ->
      let cls = classify_name (sym_name sym) in
      match ser_cmd (CDeclareConst sym), parse_text (s2c text) with
      | Ok m, Some i when sx_equal m i -> true
      | Ok m, _ -> cls = NOutside && strip_ws (sx_to_string m) = strip_ws text
      | Panic, _ -> false) decls

let declare_oracle (g : sctx) (sym : expr) (text : string) : sctx =
  let reserved = classify_name (sym_name sym) = NReserved in
  let fail key = raise (Verdict ("fail", (if reserved then "reserved-word-unquoted" else key), String.escaped text)) in
  match parse_text (s2c text) with
  | None -> fail "declare:unlexable"
  | Some i ->
      (match cmd_check g i with
       | Some g' ->
           (match g' (sym_name sym) with
            | Some so when so = sort_of_ty (type_of sym) -> g'
            | _ -> fail "declare:wrong-sort")
       | None -> fail "declare:rejected")

let build_context (decls : (expr * string) list) : sctx =
  List.fold_left (fun g (sym, text) -> declare_oracle g sym text) empty_ctx decls

let env_of_sexp (e : Sexp.t) : env =
  let fs = match e with Sexp.List (Sexp.Atom "env" :: fs) -> fs | _ -> raise (Sexp.Parse_error "env") in
  mk_env (parse_bvenv (Sexp.field "bvenv" fs)) (parse_arrenv (Sexp.field "arrenv" fs))

let sval_same (a : sval) (b : sval) (indices : n list) : bool =
  match a, b with
  | SVBool x, SVBool y -> x = y
  | SVBits (w, x), SVBits (w', y) -> w = w' && x = y
  | SVArr (i, d, f), SVArr (i', d', g) -> i = i' && d = d' && List.for_all (fun k -> f k = g k) indices
  | _ -> false

(* the value part of one get-value answer ((term value)) *)
let answers_of_output (out : string) : (string * sx list) =
  match parse_script (s2c out) with
  | None -> ("unlexable", [])
  | Some items ->
      let has_error = List.exists (function SxList (SxAtom h :: _) when c2s h = "error" -> true | _ -> false) items in
      if has_error then ("error", [])
      else
        let vals = List.filter_map (function SxList [SxList [_; v]] -> Some v | _ -> None) items in
        let status = List.filter_map (function SxAtom a -> Some (c2s a) | _ -> None) items in
        ((match status with s :: _ -> s | [] -> "none"), vals)

let handle_expr (id : string) (fs : Sexp.t list) : string =
  let ex = Sexp.field1 "expr" fs in
  let e = expr_of_sexp ex in
  let text = Sexp.atom (Sexp.field1 "text" fs) in
  let indices = List.map num (match Sexp.field_opt "indices" fs with Some l -> l | None -> []) in
  let op = root_tag ex in
  try
    if not (wt e) then raise (Verdict ("error", "generator:ill-typed", ""));
    if not (built e) then raise (Verdict ("error", "generator:not-built", ""));
    let decls = decl_entries (Sexp.field "syms" fs) in
    let cls = worst_class (List.map (fun (s, _) -> sym_name s) decls) in
    (* correspondence *)
    let model = match ser_cmd (CGetValue e) with Ok t -> t | Panic -> raise (Verdict ("error", "model-panic", "")) in
    let impl = parse_text (s2c text) in
    let corr =
      decls_correspond decls &&
      (match impl with
       | Some i when sx_equal model i -> true
       | _ -> cls = NOutside && strip_ws (sx_to_string model) = strip_ws text) in
    let corr_detail = if corr then "" else Printf.sprintf "impl=%s model=%s" (String.escaped text) (sx_to_string model) in
    (* names that SMT-LIB cannot express at all (| or \ inside, theory symbols): outside the property *)
    if cls = NOutside then begin
      if corr then raise (Verdict ("skip", "name-outside-smtlib", ""))
      else raise (Verdict ("diff", "text:" ^ op, corr_detail))
    end;
    (* property oracle (a failure takes precedence over a mere divergence from the model) *)
    (try
      let g = build_context decls in
      let term =
        match impl with
        | Some (SxList [SxAtom _; SxList [t]] as c) ->
            (match cmd_check g c with
             | Some _ -> t
             | None -> raise (Verdict ("fail", "ill-sorted:" ^ op, "get-value rejected: " ^ String.escaped text)))
        | _ -> raise (Verdict ("fail", "unreadable:" ^ op, String.escaped text)) in
      let want_sort = sort_for (type_of e) false in
      (match scheck g term with
       | Some s when s = want_sort -> ()
       | Some s -> raise (Verdict ("fail", "wrong-sort:" ^ op, Printf.sprintf "got %s want %s: %s" (show_sort s) (show_sort want_sort) (sx_to_string term)))
       | None -> raise (Verdict ("fail", "ill-sorted:" ^ op, sx_to_string term)));
      let envs = List.map env_of_sexp (match Sexp.field_opt "envs" fs with Some l -> l | None -> []) in
      List.iter (fun rho ->
          let want = sval_for (type_of e) false (ebv rho e) (earr rho e) in
          match seval (smodel_of g rho) term with
          | Some v when sval_same v want indices -> ()
          | got -> raise (Verdict ("fail", "value:" ^ op, Printf.sprintf "smt=%s ir=%s term=%s" (show_opt_val got indices) (show_val want indices) (sx_to_string term))))
        envs;
      (* independent solvers, first assignment *)
      (match Sexp.field_opt "solver" fs, envs with
       | Some runs, rho :: _ ->
           List.iter (fun r ->
               match r with
               | Sexp.List [nm; out] ->
                   let nm = Sexp.atom nm and out = Sexp.atom out in
                   let (st, vals) = answers_of_output out in
                   (* a solver stops at its first parse error: later cases of the same session have no output (inconclusive) *)
                   let no_output = (try ignore (Str.search_forward (Str.regexp_string "no output for this case") out 0); true with Not_found -> false) in
                   if no_output then () else begin
                   if st <> "sat" then raise (Verdict ("fail", "solver-rejects:" ^ nm, String.escaped out));
                   let empty : smodel = fun _ -> None in
                   (match type_of e with
                    | TBV w ->
                        let want = sval_for (type_of e) false (ebv rho e) (earr rho e) in
                        (match vals with
                         | [v] ->
                             (match seval empty v with
                              | Some sv when sval_same sv want [] -> ()
                              | None -> ()   (* the solver did not answer with a value (z3: quantified / lambda terms for array equality): inconclusive *)
                              | got -> raise (Verdict ("fail", "solver-value:" ^ nm, Printf.sprintf "solver=%s ir=%s" (sx_to_string v) (show_val want []))))
                         | _ -> raise (Verdict ("fail", "solver-answer:" ^ nm, String.escaped out)))
                    | TArr (iw, dw) ->
                        let f = earr rho e in
                        let few = List.filteri (fun k _ -> k < 4) indices in
                        if List.length vals <> List.length few then raise (Verdict ("fail", "solver-answer:" ^ nm, String.escaped out));
                        List.iter2 (fun k v ->
                            let want = sval_for (TBV dw) false (f k) (fun _ -> N0) in
                            match seval empty v with
                            | Some sv when sval_same sv want [] -> ()
                            | None -> ()
                            | _ -> raise (Verdict ("fail", "solver-value:" ^ nm, Printf.sprintf "index %s solver=%s ir=%s" (dec_of_n k) (sx_to_string v) (show_val want []))))
                          few vals)
                   end
               | _ -> ()) runs
       | _ -> ())
    with Verdict ("fail", key, detail) ->
      raise (Verdict ("fail", key, if corr then detail else detail ^ " ALSO-DIFF " ^ corr_detail)));
    if corr then result ~id ~status:"ok" ~key:op ()
    else result ~id ~status:"diff" ~key:("text:" ^ op) ~detail:corr_detail ()
  with Verdict (status, key, detail) -> result ~id ~status ~key ~detail ()

(* ---- commands *)
let logic_of = function
  | "ALL" -> LoAll | "QF_AUFBV" -> LoQfAufbv | "QF_ABV" -> LoQfAbv | _ -> LoQfBv

let cmd_of_sexp (x : Sexp.t) : smt_cmd * string =
  let open Sexp in
  match x with
  | List [Atom "assert"; e] -> (CAssert (expr_of_sexp e), "assert")
  | List [Atom "declare"; e] -> (CDeclareConst (expr_of_sexp e), "declare")
  | List [Atom "declare-nonsym"; e] -> (CDeclareConst (expr_of_sexp e), "declare-nonsym")
  | List [Atom "define"; s; e] -> (CDefineConst (expr_of_sexp s, expr_of_sexp e), "define")
  | List (Atom "csa" :: es) -> (CCheckSatAssuming (List.map expr_of_sexp es), "check-sat-assuming")
  | List [Atom "getvalue"; e] -> (CGetValue (expr_of_sexp e), "get-value")
  | List [Atom "push"; n] -> (CPush (num n), "push")
  | List [Atom "pop"; n] -> (CPop (num n), "pop")
  | List [Atom "setlogic"; l] -> (CSetLogic (logic_of (atom l)), "set-logic")
  | List [Atom "setoption"; k; v] -> (CSetOption (name k, name v), "set-option")
  | List [Atom "setinfo"; k; v] -> (CSetInfo (name k, name v), "set-info")
  | List [Atom "exit"] -> (CExit, "exit")
  | List [Atom "checksat"] -> (CCheckSat, "check-sat")
  | List [Atom "gua"] -> (CGetUnsatAssumptions, "get-unsat-assumptions")
  | _ -> raise (Parse_error ("bad cmd " ^ Sexp.to_string x))

let cmd_exprs = function
  | CAssert e | CGetValue e -> [e]
  | CDefineConst (_, e) -> [e]
  | CCheckSatAssuming es -> es
  | _ -> []

let handle_cmd (id : string) (fs : Sexp.t list) : string =
  let (c, kind) = cmd_of_sexp (Sexp.field1 "cmd" fs) in
  let text = Sexp.atom (Sexp.field1 "text" fs) in
  try
    List.iter (fun e ->
        if not (wt e) then raise (Verdict ("error", "generator:ill-typed", ""));
        if not (built e) then raise (Verdict ("error", "generator:not-built", ""))) (cmd_exprs c);
    let decls = decl_entries (Sexp.field "syms" fs) in
    let model = ser_cmd c in
    let impl = if text = "<panic>" then None else parse_text (s2c text) in
    (match model, text with
     | Panic, "<panic>" -> raise (Verdict ("ok", kind ^ ":both-panic", ""))
     | Panic, _ -> raise (Verdict ("diff", "cmd:" ^ kind, "model panics, implementation wrote " ^ String.escaped text))
     | Ok _, "<panic>" -> raise (Verdict ("diff", "cmd:" ^ kind, "implementation panics"))
     | _ -> ());
    let m = match model with Ok t -> t | Panic -> assert false in
    (* the names this command itself introduces; option values are attribute values (any symbol will do) *)
    let own_names = match c with
      | CDeclareConst s | CDefineConst (s, _) -> [sym_name s]
      | _ -> [] in
    let value_cls = match c with
      | CSetOption (_, v) | CSetInfo (_, v) ->
          (match symbol_name (escape_id v) with
           | Some v' when v' = v -> NOk
           | _ -> if is_reserved v && is_simple_id v then NReserved else NOutside)
      | _ -> NOk in
    let cls = match worst_class (List.map (fun (s, _) -> sym_name s) decls @ own_names), value_cls with
      | NOutside, _ | _, NOutside -> NOutside
      | NReserved, _ | _, NReserved -> NReserved
      | _ -> NOk in
    let corr =
      decls_correspond decls &&
      (match impl with
       | Some i when sx_equal m i -> true
       | _ -> cls = NOutside && strip_ws (sx_to_string m) = strip_ws text) in
    let corr_detail = if corr then "" else Printf.sprintf "impl=%s model=%s" (String.escaped text) (sx_to_string m) in
    if cls = NOutside then begin
      if corr then raise (Verdict ("skip", "name-outside-smtlib", "")) else raise (Verdict ("diff", "cmd:" ^ kind, corr_detail))
    end;
    (try
      let g = build_context decls in
      let fail key = raise (Verdict ("fail", (if cls = NReserved && value_cls <> NOk || (cls = NReserved && own_names <> [] && classify_name (List.hd own_names) = NReserved) then "reserved-word-unquoted" else key), String.escaped text)) in
      let i = match impl with Some i -> i | None -> fail ("cmd-unreadable:" ^ kind) in
      (* oracle 1: the command name is the one SMT-LIB gives to this command *)
      (match sx_head i with
       | Some h when h = cmd_std_head c -> ()
       | Some h ->
           (match c with
            | CSetInfo _ -> raise (Verdict ("fail", "cmd:SetInfo-written-as-set-option", String.escaped text))
            | _ -> fail ("cmd-name:" ^ kind))
       | None -> fail ("cmd-unreadable:" ^ kind));
      (* oracle 2: the reference front end accepts it in the context of the declared symbols *)
      (match cmd_check g i with
       | None -> fail ("cmd-rejected:" ^ kind)
       | Some g' ->
           (match c with
            | CDeclareConst s | CDefineConst (s, _) ->
                (match g' (sym_name s) with
                 | Some so when so = sort_of_ty (type_of s) -> ()
                 | _ -> fail ("cmd-wrong-sort:" ^ kind))
            | _ -> ()))
    with Verdict ("fail", key, detail) ->
      raise (Verdict ("fail", key, if corr then detail else detail ^ " ALSO-DIFF " ^ corr_detail)));
    if corr then result ~id ~status:"ok" ~key:("cmd:" ^ kind) ()
    else result ~id ~status:"diff" ~key:("cmd:" ^ kind) ~detail:corr_detail ()
  with Verdict (status, key, detail) -> result ~id ~status ~key ~detail ()

let handle (x : Sexp.t) : string =
  let (id, fs) = case_fields x in
  match Sexp.atom (Sexp.field1 "kind" fs) with
  | "expr" -> handle_expr id fs
  | "cmd" -> handle_cmd id fs
  | k -> result ~id ~status:"error" ~key:"kind" ~detail:k ()

let () = Registry.register "C05" handle
