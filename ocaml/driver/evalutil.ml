(* Shared oracle helpers: symbols of an expression, corner/random/exhaustive assignments, first differing
   assignment of two expressions under the extracted semantics (Model.ebv / Model.earr). *)
open Model
open Conv

(* symbols of an expression *)
let rec syms (e : expr) (acc : expr list) : expr list =
  match e with
  | BVSymbol _ | ArraySymbol _ -> if List.exists (fun x -> expr_eqb x e) acc then acc else e :: acc
  | _ -> List.fold_left (fun acc c -> syms c acc) acc (children e)

let pow2 (w : n) : n = N.pow n_two w
let ones (w : n) : n = N.sub (pow2 w) (n_of_int 1)

let rand_n (st : Random.State.t) (w : int) : n =
  let acc = ref N0 in
  for _ = 1 to w do
    acc := N.mul n_two !acc;
    if Random.State.bool st then acc := N.add !acc (n_of_int 1)
  done;
  !acc

(* an assignment = list of (symbol, value for bv | (a,b) coefficients for arrays) *)
type aval = VB of n | VA of n * n

let env_of (asg : (expr * aval) list) : env =
  { rho_bv = (fun nm w ->
        match List.find_opt (fun (s, _) -> match s with BVSymbol (n', w') -> n' = nm && w' = w | _ -> false) asg with
        | Some (_, VB v) -> v | _ -> N0);
    rho_arr = (fun nm iw dw ->
        match List.find_opt (fun (s, _) -> match s with ArraySymbol (n', i', d') -> n' = nm && i' = iw && d' = dw | _ -> false) asg with
        | Some (_, VA (a, b)) -> (fun i -> N.modulo (N.add (N.mul a i) b) (pow2 dw))
        | _ -> (fun _ -> N0)) }

let corner (k : int) (w : n) : n =
  match k with
  | 0 -> N0
  | 1 -> if w = N0 then N0 else n_of_int 1
  | 2 -> ones w
  | 3 -> pow2 (N.sub w (n_of_int 1))
  | _ -> (* alternating *) n_of_bits (String.init (int_of_n w) (fun i -> if i mod 2 = 0 then '1' else '0'))

let assignments (st : Random.State.t) (ss : expr list) : (expr * aval) list list =
  let total_bits = List.fold_left (fun acc s -> match s with BVSymbol (_, w) -> acc + int_of_n w | _ -> acc + 1000) 0 ss in
  if total_bits <= 10 then begin
    (* exhaustive *)
    let rec go = function
      | [] -> [ [] ]
      | (BVSymbol (_, w) as s) :: rest ->
          let tails = go rest in
          List.concat (List.init (1 lsl int_of_n w) (fun v -> List.map (fun t -> (s, VB (n_of_int v)) :: t) tails))
      | _ :: rest -> go rest
    in
    go ss
  end else begin
    let mk f = List.map (fun s -> match s with
        | BVSymbol (_, w) -> (s, VB (f w))
        | ArraySymbol (_, _, dw) -> (s, VA (rand_n st (min (int_of_n dw) 8), rand_n st (int_of_n dw)))
        | _ -> (s, VB N0)) ss in
    List.init 5 (fun k -> mk (corner k))
    @ List.init 5 (fun k -> mk (fun w -> if Random.State.bool st then corner k w else rand_n st (int_of_n w)))
    @ List.init 14 (fun _ -> mk (fun w -> rand_n st (int_of_n w)))
  end

let sample_indices (st : Random.State.t) (iw : n) : n list =
  if int_of_n iw <= 4 then List.init (1 lsl int_of_n iw) n_of_int
  else [ N0; n_of_int 1; ones iw ] @ List.init 4 (fun _ -> rand_n st (int_of_n iw))

(* first assignment under which e and r differ *)
let find_diff (st : Random.State.t) (e : expr) (r : expr) : string option =
  let ss = syms r (syms e []) in
  let asgs = assignments st ss in
  let show asg = String.concat " " (List.map (fun (s, v) -> match s, v with
      | BVSymbol (nm, w), VB x -> Printf.sprintf "%s=b%s" (ocamlstr nm) (bits_of_n_loose (int_of_n w) x)
      | ArraySymbol (nm, _, _), VA (a, b) -> Printf.sprintf "%s=[i->%s*i+%s]" (ocamlstr nm) (dec_of_n a) (dec_of_n b)
      | _ -> "?") asg) in
  let rec go = function
    | [] -> None
    | asg :: rest ->
        let rho = env_of asg in
        let differs =
          match type_of e with
          | TBV _ -> ebv rho e <> ebv rho r
          | TArr (iw, _) -> List.exists (fun i -> earr rho e i <> earr rho r i) (sample_indices st iw) in
        if differs then Some (show asg) else go rest
  in
  go asgs

