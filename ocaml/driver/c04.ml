(* C04: the unrolled SMT encoding.  Case format: see harness/src/c04.rs.
   Correspondence: signal order + use counts, the commands of every init_at/unroll block (as
   multisets; the order inside the script is judged by the oracle), get_signal_at.
   Oracle (on the IMPLEMENTATION's script): extracted strict checker Model.script_check; extracted
   evaluator Model.script_eval against executions of Spec/System.v; z3 / cvc5 acceptance.
   Handler "C04" compares with the model of the current code, "C04F" with the repaired code. *)
open Model
open Conv

open C00mc

let sort_cmds (l : cmd list) = List.sort compare l

let handle_variant ?(second_repair = false) ?(third_repair = false) (v : variant) (x : Sexp.t) : string =
  let id, fs = case_fields x in
  let sy = sys_of_case fs in
  let nm = names_of_case fs in
  let entry = int_of_string (Sexp.atom (Sexp.field1 "entry" fs)) in
  let unrolls = int_of_string (Sexp.atom (Sexp.field1 "unrolls" fs)) in
  let implerr = Sexp.atom (Sexp.field1 "implerr" fs) in
  let z3 = Sexp.atom (Sexp.field1 "z3" fs) and cvc5 = Sexp.atom (Sexp.field1 "cvc5" fs) in
  let real = match Sexp.field_opt "real" fs with Some l -> List.map Sexp.atom l | None -> ["skipped"] in
  if implerr <> "" then Registry.result ~id ~status:"fail" ~key:"encoding-panics" ~detail:implerr ()
  else begin
    let en = enc_new sy nm in
    let impl_blocks = List.map (function
        | Sexp.List (Sexp.Atom "block" :: cs) -> List.map cmd_of_sexp cs
        | b -> raise (Sexp.Parse_error ("bad block " ^ Sexp.to_string b))) (Sexp.field "blocks" fs) in
    let impl_script = List.concat impl_blocks in
    let signals = List.map (function
        | Sexp.List [Sexp.Atom "sig"; e; k; Sexp.List [Sexp.Atom "panic"]] -> (expr_of_sexp e, int_of_string (Sexp.atom k), None)
        | Sexp.List [Sexp.Atom "sig"; e; k; s] -> (expr_of_sexp e, int_of_string (Sexp.atom k), Some (expr_of_sexp s))
        | s -> raise (Sexp.Parse_error ("bad sig " ^ Sexp.to_string s))) (Sexp.field "signals" fs) in
    (* the hypothesis on the init expressions of the theorem that applies (C04_script_wf_fixed / C04_script3_wf_b) *)
    let init_domain_b en = if third_repair then init_order_complete_b en else init_reads_ok_b en in
    (* ---------------- correspondence *)
    let diffs = ref [] in
    let impl_order = List.map (function
        | Sexp.List [e; n; i; o] -> (expr_of_sexp e, (num n, num i, num o))
        | s -> raise (Sexp.Parse_error ("bad order entry " ^ Sexp.to_string s))) (Sexp.field "order" fs) in
    let us = uses_of false sy in
    let model_order = List.map (fun e -> let u = us e in (e, (u.u_next, u.u_init, u.u_other))) (analyze false sy) in
    if impl_order <> model_order then
      diffs := Printf.sprintf "signal-order: impl %d entries, model %d entries" (List.length impl_order) (List.length model_order) :: !diffs;
    let model_blocks = script_blocks v en (n_of_int entry) (N.to_nat (n_of_int unrolls)) in
    (* patches/0002, 0003: the init block of entry 0 in the order of Encoding.init_at2 / init_at3, compared as a LIST *)
    let second_repair = second_repair || third_repair in
    let model_blocks = match model_blocks with
      | _ :: rest when second_repair && entry = 0 -> repaired_init_block ~third:third_repair en :: rest
      | l -> l in
    (match model_blocks, impl_blocks with
     | mb :: _, ib :: _ when second_repair && entry = 0 && mb <> ib && sort_cmds mb = sort_cmds ib ->
         diffs := (if third_repair then "block 0: same commands as init_at3, another order" else "block 0: same commands as init_at2, another order") :: !diffs
     | _ -> ());
    if List.length model_blocks <> List.length impl_blocks then diffs := "number of blocks" :: !diffs
    else List.iteri (fun i (mb, ib) ->
        if sort_cmds mb <> sort_cmds ib then begin
          let only_m = List.filter (fun c -> not (List.mem c ib)) mb and only_i = List.filter (fun c -> not (List.mem c mb)) ib in
          diffs := Printf.sprintf "block %d: only model [%s] only impl [%s]%s" i
              (String.concat " " (List.map show_cmd only_m)) (String.concat " " (List.map show_cmd only_i))
              (if only_m = [] && only_i = [] then " (multiplicities differ)" else "") :: !diffs
        end) (List.combine model_blocks impl_blocks);
    let exact_order = model_blocks = impl_blocks in
    List.iter (fun (e, k, s) ->
        if get_signal_at en e (n_of_int k) <> s then
          diffs := Printf.sprintf "get_signal_at %s %d" (Sexp.to_string (sexp_of_expr e)) k :: !diffs) signals;
    (* ---------------- oracle *)
    let fail = ref None in
    let set_fail k d = if !fail = None then fail := Some (k, d) in
    (match first_bad [] impl_script with
     | Some (d, c) -> set_fail (classify ~third:third_repair sy en entry impl_script d c) ("strict check rejects " ^ show_cmd c)
     | None -> ());
    List.iter (fun (e, k, s) ->
        if s = None then set_fail "get-signal-at-panics" (Printf.sprintf "%s at step %d" (Sexp.to_string (sexp_of_expr e)) k)) signals;
    let n_exec = ref 0 and n_skipped = ref 0 and n_text = ref 0 in
    (* values z3 computed from the REAL SMT-LIB text for the first run (declared constants pinned to the run) *)
    let textvals = match Sexp.field_opt "textvals" fs with
      | Some [Sexp.Atom "unsat"] -> `Unsat
      | Some l when List.for_all (function Sexp.List [Sexp.Atom "v"; _; _] -> true | _ -> false) l && l <> [] ->
          `Vals (List.map (function Sexp.List [_; n; v] -> (name n, num v) | _ -> assert false) l)
      | _ -> `None in
    let exec_no = ref 0 in
    if !fail = None then begin
      List.iter (fun ex ->
          let this_exec = !exec_no in incr exec_no;
          let raws = steps_of_exec ex in
          match raws with
          | [] -> ()
          | raw0 :: rest ->
              let rho0 = if entry = 0 then init_seq sy raw0 else raw0 in
              if entry = 0 && not (is_initial_b sy rho0) then incr n_skipped
              else begin
                incr n_exec;
                let trace = Array.of_list (run_from sy rho0 rest) in
                let at k = trace.(k - entry) in
                (* the declared constants take the values of the execution *)
                let tab = List.filter_map (fun (e, k, s) ->
                    match s with Some sym -> (match sym_leaf_name sym with Some n -> Some (n, (e, k)) | None -> None) | None -> None) signals in
                let sigma0 = {
                  rho_bv = (fun n w -> match List.assoc_opt n tab with Some (e, k) -> ebv (at k) e | None -> N0);
                  rho_arr = (fun n iw dw -> match List.assoc_opt n tab with Some (e, k) -> earr (at k) e | None -> (fun _ -> N0)) } in
                let sigma = script_eval sigma0 impl_script in
                List.iter (fun (e, k, s) ->
                    match s with
                    | Some sym ->
                        if not (val_eqb (type_of e) sigma sym (at k) e) then
                          let kind =
                            if List.exists (fun st -> expr_eqb st.st_sym e) sy.s_states then "state"
                            else if List.exists (expr_eqb e) sy.s_inputs then "input"
                            else if List.exists (expr_eqb e) sy.s_constraints then "constraint" else "bad-state" in
                          set_fail ("unfaithful:" ^ kind) (Printf.sprintf "%s at step %d: script value differs from the execution" (Sexp.to_string (sexp_of_expr e)) k)
                    | None -> ()) signals;
                (* the same comparison on the text level *)
                if this_exec = 0 then begin
                  match textvals with
                  | `Unsat -> set_fail "text:pinned-run-unsatisfiable" "z3: the script with the declared constants pinned to a run of the system is unsat"
                  | `Vals vs ->
                      List.iter (fun (n, v) ->
                          match List.assoc_opt n tab with
                          | Some (e, k) ->
                              incr n_text;
                              if ebv (at k) e <> v then
                                set_fail "unfaithful-text" (Printf.sprintf "%s = %s at step %d: z3 evaluates the SMT-LIB text to another value than the execution (the abstract commands are %s)"
                                   (ocamlstr n) (Sexp.to_string (sexp_of_expr e)) k
                                   (if !fail = None then "faithful" else "unfaithful too"))
                          | None -> ()) vs
                  | `None -> ()
                end
              end) (Sexp.field "execs" fs)
    end;
    (* the solvers: a third, independent check *)
    let as_const_limit m = (try ignore (Str.search_forward (Str.regexp_string "expected a value") m 0); true with Not_found -> false) in
    if !fail = None then begin
      if z3 <> "ok" && z3 <> "skipped" then set_fail "solver-rejects:z3" z3
      else if cvc5 <> "ok" && cvc5 <> "skipped" && not (as_const_limit cvc5) then set_fail "solver-rejects:cvc5" cvc5
      else (match real with
          | v :: _ when v <> "ok" && v <> "skipped" -> set_fail "solver-rejects:z3-through-SmtLibSolverCtx" v
          | _ -> ())
    end;
    (match real with
     | [_; "replay-file-differs"] -> diffs := "replay file of SmtLibSolverCtx differs from serialize_cmd of the recorded commands" :: !diffs
     | _ -> ());
    let solver_note =
      Printf.sprintf "z3=%s cvc5=%s" (if z3 = "ok" then "ok" else "REJECT") (if cvc5 = "ok" then "ok" else if as_const_limit cvc5 then "as-const-limit" else "REJECT") in
    (* the theorems predict acceptance inside their domain: a failure there contradicts the model/proofs *)
    (match !fail with
     | Some (k, d) when sys_wf sy && names_ok en && (entry <> 0 || init_domain_b en) && not (known_class_b en (n_of_int entry))
                        && (String.length k >= 3 && (String.sub k 0 3 = "dup" || String.sub k 0 3 = "use")) ->
         fail := Some ("theorem-domain-but-" ^ k, d)
     | _ -> ());
    match !fail with
    | Some (k, d) -> Registry.result ~id ~status:"fail" ~key:k ~detail:(d ^ "; " ^ solver_note ^ (if !diffs <> [] then "; also differs from model: " ^ String.concat " | " !diffs else "")) ()
    | None ->
        if !diffs <> [] then Registry.result ~id ~status:"diff" ~key:"model-differs" ~detail:(String.concat " | " (List.rev !diffs)) ()
        else
          (* where the case lies with respect to the hypotheses of the theorems of Props/C04.v *)
          let domain =
            if not (sys_wf sy) then "outside:sys_wf"
            else if not (names_ok en) then "outside:names_ok"
            else if entry = 0 && not (init_domain_b en) then
              (if third_repair then "outside:init_order_complete(but-accepted)" else "outside:init_reads_ok(but-accepted)")
            else if known_class_b en (n_of_int entry) then "known-class(but-accepted)"
            else "in-theorem-domain" in
          Registry.result ~id ~status:"ok" ~key:(Printf.sprintf "entry%s:%s" (if entry = 0 then "0" else ">0") domain)
            ~detail:(Printf.sprintf "execs=%d skipped=%d text-values=%d exact-order=%b %s" !n_exec !n_skipped !n_text exact_order solver_note) ()
  end

let () = Registry.register "C04" (handle_variant Current)
let () = Registry.register "C04F" (handle_variant ~second_repair:C00mc.second_repair ~third_repair:C00mc.third_repair Fixed)
let () = Registry.register "C04G" (handle_variant ~second_repair:true Fixed)
let () = Registry.register "C04H" (handle_variant ~third_repair:true Fixed)
