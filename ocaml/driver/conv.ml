(* Conversions between S-expressions and the extracted Coq datatypes (module Model). *)
open Model

let rec pos_of_int (i : int) : positive =
  if i = 1 then XH else if i land 1 = 0 then XO (pos_of_int (i lsr 1)) else XI (pos_of_int (i lsr 1))
let n_of_int (i : int) : n = if i = 0 then N0 else Npos (pos_of_int i)
let rec int_of_pos = function XH -> 1 | XO p -> 2 * int_of_pos p | XI p -> 2 * int_of_pos p + 1
let int_of_n = function N0 -> 0 | Npos p -> int_of_pos p

let n_two = n_of_int 2
let n_ten = n_of_int 10

(* binary string (msb first) -> N *)
let n_of_bits (s : string) : n =
  let acc = ref N0 in
  String.iter (fun c ->
      acc := N.mul n_two !acc;
      if c = '1' then acc := N.add !acc (n_of_int 1)
      else if c <> '0' then failwith ("bad bit string " ^ s)) s;
  !acc

(* N -> binary string of exactly [w] characters (msb first); value must be < 2^w *)
let bits_of_n (w : int) (v : n) : string =
  let b = Bytes.make w '0' in
  let rec go i = function
    | XH -> if i >= 0 then Bytes.set b i '1' else failwith "bits_of_n: overflow"
    | XO p -> go (i - 1) p
    | XI p -> (if i >= 0 then Bytes.set b i '1' else failwith "bits_of_n: overflow"); go (i - 1) p
  in
  (match v with N0 -> () | Npos p -> go (w - 1) p);
  Bytes.to_string b

(* like bits_of_n but never fails: prints as many bits as needed when v >= 2^w *)
let rec pos_bits = function XH -> "1" | XO p -> pos_bits p ^ "0" | XI p -> pos_bits p ^ "1"
let bits_of_n_loose (w : int) (v : n) : string =
  try bits_of_n w v with Failure _ -> "OVERFLOW:" ^ (match v with N0 -> "0" | Npos p -> pos_bits p)

let n_of_dec (s : string) : n =
  let acc = ref N0 in
  String.iter (fun c ->
      if c < '0' || c > '9' then failwith ("bad decimal " ^ s);
      acc := N.add (N.mul n_ten !acc) (n_of_int (Char.code c - 48))) s;
  !acc

let dec_of_n (v : n) : string =
  if v = N0 then "0"
  else begin
    let digits = ref [] in
    let cur = ref v in
    while !cur <> N0 do
      let q = N.div !cur n_ten and r = N.modulo !cur n_ten in
      digits := Char.chr (48 + int_of_n r) :: !digits;
      cur := q
    done;
    String.init (List.length !digits) (List.nth !digits)
  end

(* a value token is either b<bits> (binary) or a decimal number *)
let n_of_tok (s : string) : n =
  if String.length s > 0 && s.[0] = 'b' then n_of_bits (String.sub s 1 (String.length s - 1)) else n_of_dec s

let coqstr (s : string) : char list = List.init (String.length s) (String.get s)
let ocamlstr (l : char list) : string = String.init (List.length l) (List.nth l)

let num (x : Sexp.t) : n = n_of_tok (Sexp.atom x)
let name (x : Sexp.t) : char list = coqstr (Sexp.atom x)

let rec expr_of_sexp (x : Sexp.t) : expr =
  let open Sexp in
  let e = expr_of_sexp in
  match x with
  | List [Atom "sym"; n; w] -> BVSymbol (name n, num w)
  | List [Atom "lit"; w; v] -> BVLiteral (num w, num v)
  | List [Atom "zext"; a; b; w] -> BVZeroExt (e a, num b, num w)
  | List [Atom "sext"; a; b; w] -> BVSignExt (e a, num b, num w)
  | List [Atom "slice"; a; hi; lo] -> BVSlice (e a, num hi, num lo)
  | List [Atom "not"; a; w] -> BVNot (e a, num w)
  | List [Atom "neg"; a; w] -> BVNegate (e a, num w)
  | List [Atom "eq"; a; b] -> BVEqual (e a, e b)
  | List [Atom "implies"; a; b] -> BVImplies (e a, e b)
  | List [Atom "ugt"; a; b] -> BVGreater (e a, e b)
  | List [Atom "sgt"; a; b; w] -> BVGreaterSigned (e a, e b, num w)
  | List [Atom "uge"; a; b] -> BVGreaterEqual (e a, e b)
  | List [Atom "sge"; a; b; w] -> BVGreaterEqualSigned (e a, e b, num w)
  | List [Atom "concat"; a; b; w] -> BVConcat (e a, e b, num w)
  | List [Atom "and"; a; b; w] -> BVAnd (e a, e b, num w)
  | List [Atom "or"; a; b; w] -> BVOr (e a, e b, num w)
  | List [Atom "xor"; a; b; w] -> BVXor (e a, e b, num w)
  | List [Atom "shl"; a; b; w] -> BVShiftLeft (e a, e b, num w)
  | List [Atom "ashr"; a; b; w] -> BVArithmeticShiftRight (e a, e b, num w)
  | List [Atom "lshr"; a; b; w] -> BVShiftRight (e a, e b, num w)
  | List [Atom "add"; a; b; w] -> BVAdd (e a, e b, num w)
  | List [Atom "mul"; a; b; w] -> BVMul (e a, e b, num w)
  | List [Atom "sdiv"; a; b; w] -> BVSignedDiv (e a, e b, num w)
  | List [Atom "udiv"; a; b; w] -> BVUnsignedDiv (e a, e b, num w)
  | List [Atom "smod"; a; b; w] -> BVSignedMod (e a, e b, num w)
  | List [Atom "srem"; a; b; w] -> BVSignedRem (e a, e b, num w)
  | List [Atom "urem"; a; b; w] -> BVUnsignedRem (e a, e b, num w)
  | List [Atom "sub"; a; b; w] -> BVSub (e a, e b, num w)
  | List [Atom "read"; a; i; w] -> BVArrayRead (e a, e i, num w)
  | List [Atom "ite"; c; t; f] -> BVIte (e c, e t, e f)
  | List [Atom "asym"; n; iw; dw] -> ArraySymbol (name n, num iw, num dw)
  | List [Atom "aconst"; a; iw; dw] -> ArrayConstant (e a, num iw, num dw)
  | List [Atom "aeq"; a; b] -> ArrayEqual (e a, e b)
  | List [Atom "store"; a; i; d] -> ArrayStore (e a, e i, e d)
  | List [Atom "aite"; c; t; f] -> ArrayIte (e c, e t, e f)
  | _ -> raise (Parse_error ("bad expr " ^ Sexp.to_string x))

let width_of (e : expr) : int = match type_of e with TBV w -> int_of_n w | TArr _ -> 0

let rec sexp_of_expr (x : expr) : Sexp.t =
  let open Sexp in
  let s = sexp_of_expr in
  let d v = Atom (dec_of_n v) in
  let nm n = Str (ocamlstr n) in
  let bin tag a b w = List [Atom tag; s a; s b; d w] in
  match x with
  | BVSymbol (n, w) -> List [Atom "sym"; nm n; d w]
  | BVLiteral (w, v) -> List [Atom "lit"; d w; Atom ("b" ^ bits_of_n_loose (int_of_n w) v)]
  | BVZeroExt (a, b, w) -> List [Atom "zext"; s a; d b; d w]
  | BVSignExt (a, b, w) -> List [Atom "sext"; s a; d b; d w]
  | BVSlice (a, hi, lo) -> List [Atom "slice"; s a; d hi; d lo]
  | BVNot (a, w) -> List [Atom "not"; s a; d w]
  | BVNegate (a, w) -> List [Atom "neg"; s a; d w]
  | BVEqual (a, b) -> List [Atom "eq"; s a; s b]
  | BVImplies (a, b) -> List [Atom "implies"; s a; s b]
  | BVGreater (a, b) -> List [Atom "ugt"; s a; s b]
  | BVGreaterSigned (a, b, w) -> bin "sgt" a b w
  | BVGreaterEqual (a, b) -> List [Atom "uge"; s a; s b]
  | BVGreaterEqualSigned (a, b, w) -> bin "sge" a b w
  | BVConcat (a, b, w) -> bin "concat" a b w
  | BVAnd (a, b, w) -> bin "and" a b w
  | BVOr (a, b, w) -> bin "or" a b w
  | BVXor (a, b, w) -> bin "xor" a b w
  | BVShiftLeft (a, b, w) -> bin "shl" a b w
  | BVArithmeticShiftRight (a, b, w) -> bin "ashr" a b w
  | BVShiftRight (a, b, w) -> bin "lshr" a b w
  | BVAdd (a, b, w) -> bin "add" a b w
  | BVMul (a, b, w) -> bin "mul" a b w
  | BVSignedDiv (a, b, w) -> bin "sdiv" a b w
  | BVUnsignedDiv (a, b, w) -> bin "udiv" a b w
  | BVSignedMod (a, b, w) -> bin "smod" a b w
  | BVSignedRem (a, b, w) -> bin "srem" a b w
  | BVUnsignedRem (a, b, w) -> bin "urem" a b w
  | BVSub (a, b, w) -> bin "sub" a b w
  | BVArrayRead (a, i, w) -> List [Atom "read"; s a; s i; d w]
  | BVIte (c, t, f) -> List [Atom "ite"; s c; s t; s f]
  | ArraySymbol (n, iw, dw) -> List [Atom "asym"; nm n; d iw; d dw]
  | ArrayConstant (a, iw, dw) -> List [Atom "aconst"; s a; d iw; d dw]
  | ArrayEqual (a, b) -> List [Atom "aeq"; s a; s b]
  | ArrayStore (a, i, dd) -> List [Atom "store"; s a; s i; s dd]
  | ArrayIte (c, t, f) -> List [Atom "aite"; s c; s t; s f]

(* symbol environments.
   (bvenv (name w value) ...)   (arrenv (name iw dw default (idx val) ...) ...) *)
type arr_entry = { a_name : char list; a_iw : n; a_dw : n; a_default : n; a_entries : (n * n) list }

let arr_fun (default : n) (entries : (n * n) list) : n -> n =
 fun i -> match List.find_opt (fun (k, _) -> k = i) entries with Some (_, v) -> v | None -> default

let parse_bvenv (items : Sexp.t list) : (char list * n * n) list =
  List.map (function
      | Sexp.List [n; w; v] -> (name n, num w, num v)
      | x -> raise (Sexp.Parse_error ("bad bvenv entry " ^ Sexp.to_string x))) items

let parse_arrenv (items : Sexp.t list) : arr_entry list =
  List.map (function
      | Sexp.List (n :: iw :: dw :: rest) ->
          let (def, entries) = match rest with
            | Sexp.Atom ("dense" | "sparse") :: d :: es -> (d, es)
            | d :: es -> (d, es)
            | [] -> raise (Sexp.Parse_error "bad arrenv entry") in
          { a_name = name n; a_iw = num iw; a_dw = num dw; a_default = num def;
            (* later entries win: keep list in reverse so find_opt sees the latest store first *)
            a_entries = List.rev (List.map (function
                | Sexp.List [i; v] -> (num i, num v)
                | x -> raise (Sexp.Parse_error ("bad array entry " ^ Sexp.to_string x))) entries) }
      | x -> raise (Sexp.Parse_error ("bad arrenv entry " ^ Sexp.to_string x))) items

(* total environment; unbound symbols read as 0 (only consulted where bound, see callers) *)
let mk_env (bvs : (char list * n * n) list) (arrs : arr_entry list) : env =
  { rho_bv = (fun nm w ->
        match List.find_opt (fun (n', w', _) -> n' = nm && w' = w) bvs with Some (_, _, v) -> v | None -> N0);
    rho_arr = (fun nm iw dw ->
        match List.find_opt (fun a -> a.a_name = nm && a.a_iw = iw && a.a_dw = dw) arrs with
        | Some a -> arr_fun a.a_default a.a_entries
        | None -> fun _ -> N0) }

(* transition systems:
   (sys (inputs E..) (states (state SYM (init E)? (next E)?)..) (outputs ("name" E)..) (bads E..) (constraints E..)) *)
let sys_of_sexp (x : Sexp.t) : sys =
  let fs = match x with Sexp.List (Sexp.Atom "sys" :: fs) -> fs | _ -> raise (Sexp.Parse_error "sys") in
  let exprs k = List.map expr_of_sexp (match Sexp.field_opt k fs with Some l -> l | None -> []) in
  let states = List.map (function
      | Sexp.List (Sexp.Atom "state" :: sym :: rest) ->
          let opt k = match Sexp.field_opt k rest with Some [e] -> Some (expr_of_sexp e) | _ -> None in
          { st_sym = expr_of_sexp sym; st_init = opt "init"; st_next = opt "next" }
      | s -> raise (Sexp.Parse_error ("bad state " ^ Sexp.to_string s)))
      (match Sexp.field_opt "states" fs with Some l -> l | None -> []) in
  let outputs = List.map (function
      | Sexp.List [n; e] -> (name n, expr_of_sexp e)
      | s -> raise (Sexp.Parse_error ("bad output " ^ Sexp.to_string s)))
      (match Sexp.field_opt "outputs" fs with Some l -> l | None -> []) in
  { s_inputs = exprs "inputs"; s_states = states; s_outputs = outputs; s_bads = exprs "bads"; s_constraints = exprs "constraints" }

(* generic case header: (case ID field...) *)
let case_fields (x : Sexp.t) : string * Sexp.t list =
  match x with
  | Sexp.List (Sexp.Atom "case" :: id :: rest) -> (Sexp.atom id, rest)
  | _ -> raise (Sexp.Parse_error "expected (case ID ...)")
