(* roots: C04 C02 *)
(* Shared helpers of the model-checking properties C04, C02, C03 (file name sorts before c02.ml). *)
open Model
open Conv

(* which variant of the encoding model mirrors the code in /repo: Fixed since the fix: commit bb18215 (D1+D4 repaired) *)
let code_variant = Fixed
(* set to true once patches/0002-encoding-init-signals-after-states.diff is applied to /repo: the init block of
   init_at(0) is then compared, in order, with Encoding.init_at2 (c04.ml) and the loop events use it (c02.ml) *)
let second_repair = true
(* set to true once patches/0003-encoding-init-states-in-dependency-order.diff is applied to /repo as well: the
   init block of init_at(0) is then the one of Encoding.init_at3 (states in the order of Encoding.init_order) *)
let third_repair = true
(* the init block of init_at(0) after the repairs that are applied *)
let repaired_init_block ?(third = third_repair) en = if third then init_at3 en else init_at2 en

let ty_of_sexp = function
  | Sexp.List [Sexp.Atom "bv"; w] -> TBV (num w)
  | Sexp.List [Sexp.Atom "arr"; iw; dw] -> TArr (num iw, num dw)
  | x -> raise (Sexp.Parse_error ("bad type " ^ Sexp.to_string x))

let cmd_of_sexp = function
  | Sexp.List [Sexp.Atom "decl"; n; t] -> DeclareConst (name n, ty_of_sexp t)
  | Sexp.List [Sexp.Atom "def"; n; t; e] -> DefineFun (name n, ty_of_sexp t, expr_of_sexp e)
  | x -> raise (Sexp.Parse_error ("bad command " ^ Sexp.to_string x))

let show_ty = function
  | TBV w -> Printf.sprintf "(bv %d)" (int_of_n w)
  | TArr (iw, dw) -> Printf.sprintf "(arr %d %d)" (int_of_n iw) (int_of_n dw)

let show_cmd = function
  | DeclareConst (n, t) -> Printf.sprintf "(decl %s %s)" (ocamlstr n) (show_ty t)
  | DefineFun (n, t, e) -> Printf.sprintf "(def %s %s %s)" (ocamlstr n) (show_ty t) (Sexp.to_string (sexp_of_expr e))

let names_of_case fs : expr -> char list =
  let tab = List.map (function
      | Sexp.List [e; n] -> (expr_of_sexp e, name n)
      | x -> raise (Sexp.Parse_error ("bad names entry " ^ Sexp.to_string x)))
      (match Sexp.field_opt "names" fs with Some l -> l | None -> []) in
  fun e -> match List.find_opt (fun (k, _) -> expr_eqb k e) tab with Some (_, n) -> n | None -> coqstr "?unnamed"

let sys_of_case fs : sys =
  sys_of_sexp (Sexp.List (Sexp.Atom "sys" :: Sexp.field "sys" fs))

(* the step valuations of one (exec (step (bvenv ..) (arrenv ..)) ..) *)
let steps_of_exec (x : Sexp.t) : env list =
  match x with
  | Sexp.List (Sexp.Atom "exec" :: steps) ->
      List.map (function
          | Sexp.List (Sexp.Atom "step" :: fs) ->
              mk_env (parse_bvenv (Sexp.field "bvenv" fs)) (parse_arrenv (Sexp.field "arrenv" fs))
          | s -> raise (Sexp.Parse_error ("bad step " ^ Sexp.to_string s))) steps
  | _ -> raise (Sexp.Parse_error "bad exec")

(* walk the script like Model.script_first_bad, but keep the context of the failure *)
let rec first_bad (d : (char list * ty) list) (cs : cmd list) : ((char list * ty) list * cmd) option =
  match cs with
  | [] -> None
  | c :: r -> if cmd_ok d c then first_bad ((cmd_name c, cmd_ty c) :: d) r else Some (d, c)

let sym_leaf_name = function BVSymbol (n, _) -> Some n | ArraySymbol (n, _, _) -> Some n | _ -> None

(* stable class of a strict-check failure *)
let classify ?(third = third_repair) (sy : sys) (en : enc) (entry : int) (all : cmd list) (d : (char list * ty) list) (c : cmd) : string =
  let nm = cmd_name c in
  let at0 base = name_at base N0 in
  if declared nm d then begin
    let shared = List.exists (fun s ->
        at0 s.sg_name = nm && pos s.sg_uses.u_init && pos s.sg_uses.u_next
        && s.sg_uses.u_other = N0 && not s.sg_input) en.e_sigs in
    if shared && entry = 0 then "dup-define:signal-shared-by-init-and-next-only" else "dup-define:other"
  end else
    match c with
    | DeclareConst (_, _) -> "bad-declare"
    | DefineFun (_, t, b) ->
        if not (wt b) then "ill-sorted:body-not-well-typed"
        else if not (ty_eqb (type_of b) t) then "ill-sorted:body-sort-differs-from-declared-sort"
        else begin
          (* first symbol of the body that is not available *)
          let missing = List.find_opt (fun s ->
              match s with
              | BVSymbol (n, w) -> not (sym_ok d n (TBV w))
              | ArraySymbol (n, iw, dw) -> not (sym_ok d n (TArr (iw, dw)))
              | _ -> false) (symbols_of b) in
          match missing with
          | None -> "strict-check:unexplained"
          | Some s ->
              let sn = match sym_leaf_name s with Some n -> n | None -> [] in
              let later = List.exists (fun c' -> cmd_name c' = sn) all in
              let wrong_sort = declared sn d in
              let state_syms k = List.map (fun st -> state_name_at st (n_of_int k)) sy.s_states in
              let is_state_def = List.mem nm (state_syms entry) in
              let is_sig_def = List.exists (fun s -> name_at s.sg_name (n_of_int entry) = nm) en.e_sigs in
              if wrong_sort then "ill-sorted:symbol-used-at-another-sort"
              else if not later then "use-of-undeclared-symbol"
              else if entry = 0 && is_sig_def && List.mem sn (state_syms 0) then "use-before-declare:init-signal-reads-state"
              else if entry = 0 && is_state_def && List.mem sn (state_syms 0) then
                (* with patches/0003 the states are in dependency order: what is left is a dependency cycle *)
                (if not third then "use-before-declare:init-reads-later-state"
                 else if init_order_complete_b en then "use-before-declare:init-states-not-in-dependency-order"
                 else "use-before-declare:init-dependency-cycle")
              else if entry > 0 && is_sig_def then "use-before-define:later-entry-signal-over-next-only-signal"
              else "use-before-declare:other"
        end


(* ---- values and witnesses (C02, C03) ---- *)
let val_of_sexp (x : Sexp.t) : val0 option =
  match x with
  | Sexp.List [Sexp.Atom "bv"; _; v] -> Some (VB (num v))
  | Sexp.List (Sexp.Atom "arr" :: _ :: _ :: vs) -> Some (VA (List.map num vs))
  | Sexp.List [Sexp.Atom "none"] -> None
  | _ -> raise (Sexp.Parse_error ("bad value " ^ Sexp.to_string x))

let name_opt (x : Sexp.t) : char list option =
  match x with
  | Sexp.List [Sexp.Atom "noname"] -> None
  | _ -> Some (name x)

(* (witness (init (v NAME VAL)..) (inputs (step (v NAME VAL)..)..) (input-names NAME..) (failed idx..)) *)
let witness_of_sexp (x : Sexp.t) : witness =
  let fs = match x with Sexp.List (Sexp.Atom "witness" :: fs) -> fs | _ -> raise (Sexp.Parse_error "witness") in
  let vs l = List.map (function
      | Sexp.List [Sexp.Atom "v"; n; v] -> (name_opt n, val_of_sexp v)
      | y -> raise (Sexp.Parse_error ("bad witness value " ^ Sexp.to_string y))) l in
  let init = vs (Sexp.field "init" fs) in
  let steps = List.map (function
      | Sexp.List (Sexp.Atom "step" :: l) -> vs l
      | y -> raise (Sexp.Parse_error ("bad witness step " ^ Sexp.to_string y))) (Sexp.field "inputs" fs) in
  { w_init = List.map snd init;
    w_init_names = List.map fst init;
    w_inputs = List.map (List.map snd) steps;
    w_input_names = List.map name_opt (Sexp.field "input-names" fs);
    w_failed = List.map num (Sexp.field "failed" fs) }

(* a naming for systems whose nodes are not all in the (names ..) table (the simplified copy):
   table first, else a name derived from the expression (unique per expression) *)
let names_with_fallback fs : expr -> char list =
  let tab = List.map (function
      | Sexp.List [e; n] -> (expr_of_sexp e, name n)
      | x -> raise (Sexp.Parse_error ("bad names entry " ^ Sexp.to_string x)))
      (match Sexp.field_opt "names" fs with Some l -> l | None -> []) in
  fun e -> match List.find_opt (fun (k, _) -> expr_eqb k e) tab with
    | Some (_, n) -> n
    | None -> coqstr ("__x" ^ string_of_int (Hashtbl.hash (Sexp.to_string (sexp_of_expr e))))

(* the class of the C04 defect that makes a conforming solver reject the script of [init_at 0; unroll^n], if any *)
let script_defect (sy : sys) (nm : expr -> char list) (n : int) : string option =
  let en = enc_new sy nm in
  let n' = N.to_nat (n_of_int n) in
  (* the script of the code in /repo: with the repairs that are applied *)
  let sc = if third_repair then script3 en n' else if second_repair then script2 en n' else script code_variant en N0 n' in
  match first_bad [] sc with
  | Some (d, c) -> Some (classify sy en 0 sc d c)
  | None -> None

type run = { r_profile : string; r_session : string; r_mode : string; r_simp : string; r_z3args : string; r_result : Sexp.t }

let runs_of_case fs : run list =
  List.map (function
      | Sexp.List (Sexp.Atom "run" :: l) ->
          let f k = Sexp.atom (Sexp.field1 k l) in
          let result = List.find (function
              | Sexp.List (Sexp.Atom ("success" | "unknown" | "err" | "panic" | "fail" | "hang" | "notrun") :: _) -> true
              | _ -> false) l in
          { r_profile = f "profile"; r_session = f "session"; r_mode = f "mode"; r_simp = f "simp"; r_z3args = f "z3args"; r_result = result }
      | x -> raise (Sexp.Parse_error ("bad run " ^ Sexp.to_string x))) (Sexp.field "runs" fs)

let contains (s : string) (sub : string) : bool =
  try ignore (Str.search_forward (Str.regexp_string sub) s 0); true with Not_found -> false

let run_tag (r : run) = Printf.sprintf "%s/%s/%s/%s" r.r_profile r.r_mode r.r_simp r.r_session

(* ---- the witness extraction (Model.get_witness, C03_bmc_witness_accepted) against a Fail run ----
   [queries]: the get-value calls recorded by the harness, (q EXPR VALUE) in call order.  The model says
   which symbols are queried in which order (bad states at the last step, states at step 0, inputs at the
   steps 0..k); given the recorded values for those symbols it must assemble exactly the witness the
   implementation returned.  [exact_bad_names]: the step symbols of the bad states are compared too (not
   for runs on the simplified copy: the names of its internal signals are not in the case). *)
let witness_tie ?(exact_bad_names = true) (sy : sys) (nm : expr -> char list) (wx : Sexp.t) (queries : Sexp.t list) : string option =
  let w = witness_of_sexp wx in
  let steps = List.length w.w_inputs in
  if steps = 0 then Some "the implementation's witness has no input step"
  else begin
    let k = n_of_int (steps - 1) in
    let en = enc_new sy nm in
    let rec_q = List.map (function
        | Sexp.List [Sexp.Atom "q"; e; v] -> (expr_of_sexp e, val_of_sexp v)
        | x -> raise (Sexp.Parse_error ("bad query " ^ Sexp.to_string x))) queries in
    match witness_query_list en k with
    | None -> Some "the model's get_witness panics in get_signal_at, the implementation returned a witness"
    | Some mq ->
        if List.length mq <> List.length rec_q then
          Some (Printf.sprintf "the model queries %d symbols, the implementation made %d get-value calls" (List.length mq) (List.length rec_q))
        else begin
          let nb = List.length sy.s_bads in
          let mism = List.filteri (fun i (m, (e, _)) -> (exact_bad_names || i >= nb) && m <> e) (List.combine mq rec_q) in
          match mism with
          | (m, (e, _)) :: _ ->
              Some (Printf.sprintf "queried symbols differ: the model asks for %s where the implementation asked for %s"
                      (Sexp.to_string (sexp_of_expr m)) (Sexp.to_string (sexp_of_expr e)))
          | [] ->
              if List.exists (fun (_, v) -> v = None) rec_q then Some "a recorded value is missing"
              else begin
                let tab = List.map (fun (m, (_, v)) -> (m, match v with Some x -> x | None -> VB N0)) (List.combine mq rec_q) in
                let gv s = match List.find_opt (fun (m, _) -> expr_eqb m s) tab with Some (_, v) -> v | None -> VB N0 in
                match get_witness en gv k with
                | None -> Some "the model's get_witness gives no witness for the recorded values (array value for a bad state)"
                | Some wm ->
                    if wm = w then None
                    else
                      let part =
                        if wm.w_failed <> w.w_failed then "failed"
                        else if wm.w_init <> w.w_init then "init"
                        else if wm.w_init_names <> w.w_init_names then "init_names"
                        else if wm.w_inputs <> w.w_inputs then "inputs"
                        else "input_names" in
                      Some (Printf.sprintf "the model assembles another witness from the recorded values (field %s)" part)
              end
        end
  end

let queries_of_fail (rest : Sexp.t list) : Sexp.t list option =
  List.find_map (function Sexp.List (Sexp.Atom "queries" :: qs) -> Some qs | _ -> None) rest
