(* roots: C18 C08 C09 *)
(* Shared by the three btor2 front-end properties (C08, C09, C18) + the C08 handler.

   Shared part: reading the implementation's system dumped as a DAG
     (ok (nodes N0 N1 ...) (sys (inputs i..) (states (state i (init j) (next k))..) (outputs ("n" i)..) (bads ..) (constraints ..)))
   where the children of a node are indices of earlier nodes; the OCaml values are built once per
   node, so the expression trees are physically shared exactly as in the implementation's context.
   [same_expr] compares a model expression with an implementation node, memoised on
   (implementation node index, physical model node), so that large shared graphs are compared in
   time proportional to the graph, not to the expanded tree. *)
open Model
open Conv

(* Which reader the model mirrors: Cur = the shipped parse.rs before the repair series, Fix = parse.rs with
   patches/0001..0007-fix-btor2-*.diff applied (the state of /repo; Model.parse_*_v, theorems C18_no_crash_fix /
   C18_accepted_well_typed_fix / C08_rejects_ill_formed_fix), Fix2 = Fix + patches/0009-fix-btor2-ext-operand-bitvector.diff
   (C08_rejects_ill_formed_fix2; needs the writer of patches/0008, i.e. writer_variant below).
   Shared by the C08, C09 and C18 handlers. *)
let code_variant = Fix

(* Which writer Model.serialize_named_v mirrors: writer_cur = the shipped serialize.rs.  One flag per prepared patch:
   w_no_array_alias = patches/0008 (no alias line for an array; goes with code_variant = Fix2),
   w_input_labels = patches/0010 (bad/constraint labels are not named after inputs),
   w_last_label = patches/0011 (only the last label that refers to an expression is named after it);
   writer_fix = all three; a subset is { writer_cur with w_input_labels = true } etc.  Used by the C09 handler. *)
let writer_variant = { writer_cur with w_input_labels = true; w_last_label = true }  (* /repo 196ebd7 (0010) and 86cfddc (0011) applied; 0008/0009 not applied *)

let big_coqstr (s : string) : char list =
  let r = ref [] in
  for i = String.length s - 1 downto 0 do r := s.[i] :: !r done;
  !r

let big_ocamlstr (l : char list) : string =
  let b = Buffer.create 64 in
  List.iter (Buffer.add_char b) l;
  Buffer.contents b

(* kernel cross-check helpers: a system as a tree in the pipe syntax, or (big) when the expanded trees exceed [budget] nodes *)
let rec within (e : expr) (b : int) : int =
  if b <= 0 then -1 else List.fold_left (fun r c -> if r < 0 then r else within c r) (b - 1) (children e)
let sys_text (s : sys) : string =
  let open Sexp in
  let e = sexp_of_expr in
  to_string (List [ Atom "sys";
         List (Atom "inputs" :: List.map e s.s_inputs);
         List (Atom "states" :: List.map (fun st ->
             List ([Atom "state"; e st.st_sym]
                   @ (match st.st_init with Some i -> [List [Atom "init"; e i]] | None -> [])
                   @ (match st.st_next with Some n -> [List [Atom "next"; e n]] | None -> []))) s.s_states);
         List (Atom "outputs" :: List.map (fun (n, x) -> List [Str (big_ocamlstr n); e x]) s.s_outputs);
         List (Atom "bads" :: List.map e s.s_bads);
         List (Atom "constraints" :: List.map e s.s_constraints) ])
let sys_text_bounded (budget : int) (s : sys) : string =
  if List.fold_left (fun r c -> if r < 0 then r else within c r) budget (all_exprs s) >= 0 then sys_text s else "(big)"

type dag = { nodes : expr array; kids : int list array }

type isys = {
  i_inputs : int list;
  i_states : (int * int option * int option) list;
  i_outputs : (char list * int) list;
  i_bads : int list;
  i_constraints : int list;
}

let idx (x : Sexp.t) : int = int_of_string (Sexp.atom x)

let dag_of_sexp (items : Sexp.t list) : dag =
  let n = List.length items in
  let nodes = Array.make n (BVLiteral (N0, N0)) in
  let kids = Array.make n [] in
  List.iteri (fun k x ->
      let open Sexp in
      let g i = nodes.(idx i) in
      let (e, ks) =
        match x with
        | List [Atom "sym"; nm; w] -> (BVSymbol (big_coqstr (Sexp.atom nm), num w), [])
        | List [Atom "lit"; w; v] -> (BVLiteral (num w, num v), [])
        | List [Atom "zext"; a; b; w] -> (BVZeroExt (g a, num b, num w), [a])
        | List [Atom "sext"; a; b; w] -> (BVSignExt (g a, num b, num w), [a])
        | List [Atom "slice"; a; hi; lo] -> (BVSlice (g a, num hi, num lo), [a])
        | List [Atom "not"; a; w] -> (BVNot (g a, num w), [a])
        | List [Atom "neg"; a; w] -> (BVNegate (g a, num w), [a])
        | List [Atom "eq"; a; b] -> (BVEqual (g a, g b), [a; b])
        | List [Atom "implies"; a; b] -> (BVImplies (g a, g b), [a; b])
        | List [Atom "ugt"; a; b] -> (BVGreater (g a, g b), [a; b])
        | List [Atom "sgt"; a; b; w] -> (BVGreaterSigned (g a, g b, num w), [a; b])
        | List [Atom "uge"; a; b] -> (BVGreaterEqual (g a, g b), [a; b])
        | List [Atom "sge"; a; b; w] -> (BVGreaterEqualSigned (g a, g b, num w), [a; b])
        | List [Atom "concat"; a; b; w] -> (BVConcat (g a, g b, num w), [a; b])
        | List [Atom "and"; a; b; w] -> (BVAnd (g a, g b, num w), [a; b])
        | List [Atom "or"; a; b; w] -> (BVOr (g a, g b, num w), [a; b])
        | List [Atom "xor"; a; b; w] -> (BVXor (g a, g b, num w), [a; b])
        | List [Atom "shl"; a; b; w] -> (BVShiftLeft (g a, g b, num w), [a; b])
        | List [Atom "ashr"; a; b; w] -> (BVArithmeticShiftRight (g a, g b, num w), [a; b])
        | List [Atom "lshr"; a; b; w] -> (BVShiftRight (g a, g b, num w), [a; b])
        | List [Atom "add"; a; b; w] -> (BVAdd (g a, g b, num w), [a; b])
        | List [Atom "mul"; a; b; w] -> (BVMul (g a, g b, num w), [a; b])
        | List [Atom "sdiv"; a; b; w] -> (BVSignedDiv (g a, g b, num w), [a; b])
        | List [Atom "udiv"; a; b; w] -> (BVUnsignedDiv (g a, g b, num w), [a; b])
        | List [Atom "smod"; a; b; w] -> (BVSignedMod (g a, g b, num w), [a; b])
        | List [Atom "srem"; a; b; w] -> (BVSignedRem (g a, g b, num w), [a; b])
        | List [Atom "urem"; a; b; w] -> (BVUnsignedRem (g a, g b, num w), [a; b])
        | List [Atom "sub"; a; b; w] -> (BVSub (g a, g b, num w), [a; b])
        | List [Atom "read"; a; i; w] -> (BVArrayRead (g a, g i, num w), [a; i])
        | List [Atom "ite"; c; t; f] -> (BVIte (g c, g t, g f), [c; t; f])
        | List [Atom "asym"; nm; iw; dw] -> (ArraySymbol (big_coqstr (Sexp.atom nm), num iw, num dw), [])
        | List [Atom "aconst"; a; iw; dw] -> (ArrayConstant (g a, num iw, num dw), [a])
        | List [Atom "aeq"; a; b] -> (ArrayEqual (g a, g b), [a; b])
        | List [Atom "store"; a; i; d] -> (ArrayStore (g a, g i, g d), [a; i; d])
        | List [Atom "aite"; c; t; f] -> (ArrayIte (g c, g t, g f), [c; t; f])
        | _ -> raise (Parse_error ("bad node " ^ Sexp.to_string x))
      in
      nodes.(k) <- e;
      kids.(k) <- List.map idx ks) items;
  { nodes; kids }

let isys_of_sexp (x : Sexp.t) : isys =
  let fs = match x with Sexp.List (Sexp.Atom "sys" :: fs) -> fs | _ -> raise (Sexp.Parse_error "sys") in
  let ids k = List.map idx (match Sexp.field_opt k fs with Some l -> l | None -> []) in
  let states = List.map (function
      | Sexp.List (Sexp.Atom "state" :: sym :: rest) ->
          let opt k = match Sexp.field_opt k rest with Some [e] -> Some (idx e) | _ -> None in
          (idx sym, opt "init", opt "next")
      | s -> raise (Sexp.Parse_error ("bad state " ^ Sexp.to_string s)))
      (match Sexp.field_opt "states" fs with Some l -> l | None -> []) in
  let outputs = List.map (function
      | Sexp.List [n; e] -> (big_coqstr (Sexp.atom n), idx e)
      | s -> raise (Sexp.Parse_error ("bad output " ^ Sexp.to_string s)))
      (match Sexp.field_opt "outputs" fs with Some l -> l | None -> []) in
  { i_inputs = ids "inputs"; i_states = states; i_outputs = outputs; i_bads = ids "bads"; i_constraints = ids "constraints" }

(* (ok (nodes ..) (sys ..)) *)
let impl_ok_of_sexp (fields : Sexp.t list) : dag * isys =
  let d = dag_of_sexp (Sexp.field "nodes" fields) in
  let s = isys_of_sexp (List.find (function Sexp.List (Sexp.Atom "sys" :: _) -> true | _ -> false) fields) in
  (d, s)

(* the implementation's system as a value of the extracted type (shared sub-terms stay shared) *)
let sys_of_isys (d : dag) (s : isys) : sys =
  let g i = d.nodes.(i) in
  { s_inputs = List.map g s.i_inputs;
    s_states = List.map (fun (sy, i, n) -> { st_sym = g sy; st_init = Option.map g i; st_next = Option.map g n }) s.i_states;
    s_outputs = List.map (fun (n, e) -> (n, g e)) s.i_outputs;
    s_bads = List.map g s.i_bads;
    s_constraints = List.map g s.i_constraints }

(* expanded tree size of every node, saturating *)
let tree_sizes (d : dag) : int array =
  let cap = 1 lsl 40 in
  let sz = Array.make (Array.length d.nodes) 1 in
  Array.iteri (fun k ks -> sz.(k) <- min cap (List.fold_left (fun a c -> a + sz.(c)) 1 ks)) d.kids;
  sz

let constructor_name (e : expr) : string =
  match e with
  | BVSymbol _ -> "sym" | BVLiteral _ -> "lit" | BVZeroExt _ -> "zext" | BVSignExt _ -> "sext" | BVSlice _ -> "slice"
  | BVNot _ -> "not" | BVNegate _ -> "neg" | BVEqual _ -> "eq" | BVImplies _ -> "implies" | BVGreater _ -> "ugt"
  | BVGreaterSigned _ -> "sgt" | BVGreaterEqual _ -> "uge" | BVGreaterEqualSigned _ -> "sge" | BVConcat _ -> "concat"
  | BVAnd _ -> "and" | BVOr _ -> "or" | BVXor _ -> "xor" | BVShiftLeft _ -> "shl" | BVArithmeticShiftRight _ -> "ashr"
  | BVShiftRight _ -> "lshr" | BVAdd _ -> "add" | BVMul _ -> "mul" | BVSignedDiv _ -> "sdiv" | BVUnsignedDiv _ -> "udiv"
  | BVSignedMod _ -> "smod" | BVSignedRem _ -> "srem" | BVUnsignedRem _ -> "urem" | BVSub _ -> "sub" | BVArrayRead _ -> "read"
  | BVIte _ -> "ite" | ArraySymbol _ -> "asym" | ArrayConstant _ -> "aconst" | ArrayEqual _ -> "aeq" | ArrayStore _ -> "store"
  | ArrayIte _ -> "aite"

(* memoised comparison: model expression (with [ren] applied to its symbols) vs implementation node *)
let make_same_expr (d : dag) (ren : (expr * char list) list) : expr -> int -> bool =
  let memo : (int, expr list) Hashtbl.t = Hashtbl.create 1024 in
  let rec same (m : expr) (i : int) : bool =
    let seen = try Hashtbl.find memo i with Not_found -> [] in
    if List.exists (fun x -> x == m) seen then true
    else begin
      let e = d.nodes.(i) in
      let ks = d.kids.(i) in
      let k n = List.nth ks n in
      let r =
        match m, e with
        | (BVSymbol _ | ArraySymbol _), _ -> rename_sym ren m = e
        | BVLiteral (w, v), BVLiteral (w', v') -> w = w' && v = v'
        | BVZeroExt (a, b, w), BVZeroExt (_, b', w') | BVSignExt (a, b, w), BVSignExt (_, b', w') -> b = b' && w = w' && same a (k 0)
        | BVSlice (a, h, l), BVSlice (_, h', l') -> h = h' && l = l' && same a (k 0)
        | BVNot (a, w), BVNot (_, w') | BVNegate (a, w), BVNegate (_, w') -> w = w' && same a (k 0)
        | BVEqual (a, b), BVEqual _ | BVImplies (a, b), BVImplies _ | BVGreater (a, b), BVGreater _
        | BVGreaterEqual (a, b), BVGreaterEqual _ | ArrayEqual (a, b), ArrayEqual _ -> same a (k 0) && same b (k 1)
        | BVGreaterSigned (a, b, w), BVGreaterSigned (_, _, w') | BVGreaterEqualSigned (a, b, w), BVGreaterEqualSigned (_, _, w')
        | BVConcat (a, b, w), BVConcat (_, _, w') | BVAnd (a, b, w), BVAnd (_, _, w') | BVOr (a, b, w), BVOr (_, _, w')
        | BVXor (a, b, w), BVXor (_, _, w') | BVShiftLeft (a, b, w), BVShiftLeft (_, _, w')
        | BVArithmeticShiftRight (a, b, w), BVArithmeticShiftRight (_, _, w') | BVShiftRight (a, b, w), BVShiftRight (_, _, w')
        | BVAdd (a, b, w), BVAdd (_, _, w') | BVMul (a, b, w), BVMul (_, _, w') | BVSignedDiv (a, b, w), BVSignedDiv (_, _, w')
        | BVUnsignedDiv (a, b, w), BVUnsignedDiv (_, _, w') | BVSignedMod (a, b, w), BVSignedMod (_, _, w')
        | BVSignedRem (a, b, w), BVSignedRem (_, _, w') | BVUnsignedRem (a, b, w), BVUnsignedRem (_, _, w')
        | BVSub (a, b, w), BVSub (_, _, w') | BVArrayRead (a, b, w), BVArrayRead (_, _, w') -> w = w' && same a (k 0) && same b (k 1)
        | BVIte (a, b, c), BVIte _ | ArrayStore (a, b, c), ArrayStore _ | ArrayIte (a, b, c), ArrayIte _ ->
            same a (k 0) && same b (k 1) && same c (k 2)
        | ArrayConstant (a, iw, dw), ArrayConstant (_, iw', dw') -> iw = iw' && dw = dw' && same a (k 0)
        | _, _ -> false
      in
      if r then Hashtbl.replace memo i (m :: seen);
      r
    end
  in
  same

(* compares the model's system [msys] (already demoted; symbols still to be renamed by [ren]) with
   the implementation's; returns None when equal, Some description of the first difference *)
let compare_sys (d : dag) (s : isys) (msys : sys) (ren : (expr * char list) list) : string option =
  let same = make_same_expr d ren in
  let diff = ref None in
  let note what = if !diff = None then diff := Some what in
  let cmp_list what ms is =
    if List.length ms <> List.length is then note (Printf.sprintf "%s: %d (model) vs %d (impl)" what (List.length ms) (List.length is))
    else List.iteri (fun k (m, i) -> if not (same m i) then note (Printf.sprintf "%s[%d] differs" what k)) (List.combine ms is)
  in
  cmp_list "inputs" msys.s_inputs s.i_inputs;
  if List.length msys.s_states <> List.length s.i_states then
    note (Printf.sprintf "states: %d (model) vs %d (impl)" (List.length msys.s_states) (List.length s.i_states))
  else
    List.iteri (fun k (m, (sy, i, n)) ->
        if not (same m.st_sym sy) then note (Printf.sprintf "state[%d].symbol differs" k);
        (match m.st_init, i with
         | None, None -> ()
         | Some a, Some b -> if not (same a b) then note (Printf.sprintf "state[%d].init differs" k)
         | _ -> note (Printf.sprintf "state[%d].init presence differs" k));
        (match m.st_next, n with
         | None, None -> ()
         | Some a, Some b -> if not (same a b) then note (Printf.sprintf "state[%d].next differs" k)
         | _ -> note (Printf.sprintf "state[%d].next presence differs" k)))
      (List.combine msys.s_states s.i_states);
  if List.map fst msys.s_outputs <> List.map fst s.i_outputs then note "output names differ";
  cmp_list "outputs" (List.map snd msys.s_outputs) (List.map snd s.i_outputs);
  cmp_list "bads" msys.s_bads s.i_bads;
  cmp_list "constraints" msys.s_constraints s.i_constraints;
  !diff

(* ---- the deep type check of an implementation system, node by node (= extracted [wt] on every
   root, because wt e = node_ok on every node of e) plus the system-level conditions *)
let check_impl_sys (d : dag) (s : isys) : string option =
  let bad = ref None in
  let note k = if !bad = None then bad := Some k in
  Array.iteri (fun i e -> if not (node_ok e) then note ("node-not-wt:" ^ constructor_name e)) d.nodes;
  let g i = d.nodes.(i) in
  let ty i = type_of (g i) in
  let decl = List.map g s.i_inputs @ List.map (fun (sy, _, _) -> g sy) s.i_states in
  List.iter (fun i -> if not (is_symbol (g i)) then note "input-not-symbol") s.i_inputs;
  List.iter (fun (sy, i, n) ->
      if not (is_symbol (g sy)) then note "state-not-symbol";
      (match i with Some e -> if ty e <> ty sy then note "init-type" | None -> ());
      (match n with Some e -> if ty e <> ty sy then note "next-type" | None -> ())) s.i_states;
  List.iter (fun b -> if ty b <> TBV (n_of_int 1) then note "bad-not-bv1") s.i_bads;
  List.iter (fun c -> if ty c <> TBV (n_of_int 1) then note "constraint-not-bv1") s.i_constraints;
  Array.iter (fun e -> if is_symbol e && not (List.mem e decl) then note "unbound-symbol") d.nodes;
  (* two declared symbols with the same name but different types would make valuations ambiguous *)
  let names = List.map (function BVSymbol (n, _) -> n | ArraySymbol (n, _, _) -> n | _ -> []) decl in
  if List.length (List.sort_uniq compare names) <> List.length names then note "duplicate-symbol-name";
  !bad

(* ------------------------------------------------------------------------------------------------
   C08 handler.  Case: (case ID (profile P) (origin ..) (muts ..) (vseed N) (text "..") (impl R))
   correspondence : Model.parse_text_raw_v / Model.parse_text_v vs R (class, and for Ok the whole FINAL system: demoted
                    states among the inputs, renamed state symbols, output names) - as for C18
   property oracle: the reference interpreter Model.sem_text (Spec/Btor2Sem.v) run on the TEXT under
                    valuations derived from vseed, against the extracted evaluator (ebv / earr) run on
                    the IMPLEMENTATION's system under the same valuations: sorts of inputs and states,
                    values of every init / next / output / bad / constraint; an accepted text must be
                    well sorted according to the reference interpreter. *)
let pow2 (w : n) : n = N.pow n_two w

let rand_bits (st : Random.State.t) (w : int) : n =
  let acc = ref N0 in
  for _ = 1 to w do
    acc := N.mul n_two !acc;
    if Random.State.bool st then acc := N.add !acc (n_of_int 1)
  done;
  !acc

(* trial 0: all zero, trial 1: all ones, others random with corner values mixed in *)
let pick_value (st : Random.State.t) (trial : int) (w : n) : n =
  let wi = int_of_n w in
  if trial = 0 then N0
  else if trial = 1 then N.sub (pow2 w) (n_of_int 1)
  else match Random.State.int st 8 with
    | 0 -> N0
    | 1 -> N.sub (pow2 w) (n_of_int 1)
    | 2 -> pow2 (N.sub w (n_of_int 1))
    | 3 -> n_of_int 1
    | _ -> rand_bits st wi

type symval = SV of n | SF of (n -> n)

let sem_err_name = function
  | B2IllSorted -> "ill-sorted" | B2ZeroWidth -> "zero-width" | B2ExtArray -> "ext-of-array" | B2PropWidth -> "prop-width"
  | B2Unsupported -> "unsupported" | B2Syntax -> "syntax"

let zero_val : b2val = { in_bv = (fun _ -> N0); in_arr = (fun _ _ -> N0); st_bv = (fun _ -> N0); st_arr = (fun _ _ -> N0) }

let rec nat_of_int (i : int) : nat = if i <= 0 then O else S (nat_of_int (i - 1))
let rec int_of_nat = function O -> 0 | S k -> 1 + int_of_nat k

let is_plain_ss (s : b2state) : bool = (s.ss_init = None) && (s.ss_next = None)

let value_eq (st : Random.State.t) (sv : value) (rho : env) (e : expr) : bool =
  match sv, type_of e with
  | VBV (w, v), TBV w' -> w = w' && v = ebv rho e
  | VArr (iw, dw, f), TArr (iw', dw') ->
      iw = iw' && dw = dw' &&
      (let g = earr rho e in
       let n_iw = int_of_n iw in
       if n_iw <= 8 then begin
         let ok = ref true in
         for i = 0 to (1 lsl n_iw) - 1 do if f (n_of_int i) <> g (n_of_int i) then ok := false done;
         !ok
       end else
         List.for_all (fun i -> f i = g i)
           ([N0; n_of_int 1; N.sub (pow2 iw) (n_of_int 1)] @ List.init 6 (fun _ -> rand_bits st n_iw)))
  | _, _ -> false

(* operator of the first line the reference interpreter / the model of the reader stops at (for keys) *)
let tok_op (toks : char list list) : string = match toks with _ :: op :: _ -> big_ocamlstr op | _ -> "?"

let first_sem_error (ctext : char list) : string =
  let rec go st = function
    | [] -> "-"
    | l :: ls -> (match sem_line zero_val st l with B2Ok st' -> go st' ls | B2Err _ -> tok_op l)
  in
  go b2sem_empty (List.map tokenize (split_lines ctext))

let first_model_error (dbg : bool) (ctext : char list) : string =
  let rec go st = function
    | [] -> "-"
    | l :: ls -> (match parse_line_v code_variant dbg st l with POk st' -> go st' ls | _ -> tok_op l)
  in
  go p_empty (List.map tokenize (split_lines ctext))

let handle_c08 (x : Sexp.t) : string =
  let id, fs = case_fields x in
  let dbg = Sexp.atom (Sexp.field1 "profile" fs) = "debug" in
  let text = Sexp.atom (Sexp.field1 "text" fs) in
  let vseed = int_of_string (Sexp.atom (Sexp.field1 "vseed" fs)) in
  let impl = Sexp.field1 "impl" fs in
  let ctext = big_coqstr text in
  (* resource guard: widths / extension amounts above 65536 make the evaluators build astronomically large numbers *)
  let huge =
    List.exists (fun line ->
        match List.filter (fun t -> t <> "") (String.split_on_char ' ' (String.map (fun c -> if c = '\t' || c = '\r' then ' ' else c) line)) with
        | _ :: "sort" :: "bitvec" :: w :: _ -> (try int_of_string w > 65536 with _ -> String.length w > 6)
        | _ :: ("uext" | "sext") :: _ :: _ :: by :: _ -> (try int_of_string by > 65536 with _ -> String.length by > 6)
        | _ -> false) (String.split_on_char '\n' text) in
  (* array equality is decided over the whole index space: skip texts that combine eq/neq with an array sort whose
     index sort is wider than 10 bits (the generator does not produce them; mutations and edge templates can) *)
  let big_array_eq =
    let lines = List.map (fun line -> List.filter (fun t -> t <> "") (String.split_on_char ' ' (String.map (fun c -> if c = '\t' || c = '\r' then ' ' else c) line)))
        (String.split_on_char '\n' text) in
    let widths = List.filter_map (function id :: "sort" :: "bitvec" :: w :: _ -> (try Some (id, int_of_string w) with _ -> None) | _ -> None) lines in
    let big_arr_sorts = List.filter_map (function id :: "sort" :: "array" :: i :: _ -> (match List.assoc_opt i widths with Some w when w > 10 -> Some id | _ -> None) | _ -> None) lines in
    let node_sort = List.filter_map (function id :: op :: sid :: _ when op <> "sort" -> Some (id, sid) | _ -> None) lines in
    let strip t = if String.length t > 0 && t.[0] = '-' then String.sub t 1 (String.length t - 1) else t in
    let is_big_arr t = match List.assoc_opt (strip t) node_sort with Some sid -> List.mem sid big_arr_sorts | None -> false in
    List.exists (function _ :: ("eq" | "neq") :: _ :: a :: b :: _ -> is_big_arr a || is_big_arr b | _ -> false) lines in
  if huge then Registry.result ~id ~status:"skip" ~key:"huge-width" () else
  if big_array_eq then Registry.result ~id ~status:"skip" ~key:"array-eq-large-index" () else
  let sem0 = sem_text zero_val ctext in
  let semclass = match sem0 with B2Ok _ -> "well-formed" | B2Err e -> sem_err_name e in
  (* kernel cross-check: verdict of the reference interpreter under the all-zero valuation, and the reader model's class / system *)
  Registry.set_model_lazy (fun () ->
      Printf.sprintf "(c08 %s %s)" semclass
        (match parse_text_raw_v code_variant dbg ctext with
         | POk (raw, ren) -> Printf.sprintf "(ok %d %s)" (List.length ren) (sys_text_bounded 4000 (demote raw))
         | PErr -> "err"
         | PPanic _ -> "panic"));
  match impl with
  | Sexp.List (Sexp.Atom "panic" :: loc :: _) ->
      (match sem0 with
       | B2Ok _ -> Registry.result ~id ~status:"fail" ~key:("rejects-well-formed:panic:" ^ first_model_error dbg ctext) ~detail:("the reference interpreter accepts the text, parse_str panics at " ^ Sexp.atom loc) ()
       | B2Err _ -> Registry.result ~id ~status:"ok" ~key:("panic+" ^ semclass) ())
  | Sexp.List [Sexp.Atom "err"] ->
      (match sem0 with
       | B2Ok _ -> Registry.result ~id ~status:"fail" ~key:("rejects-well-formed:" ^ first_model_error dbg ctext) ~detail:"the reference interpreter accepts the text, parse_str reports errors" ()
       | B2Err _ ->
           (match parse_text_raw_v code_variant dbg ctext with
            | PErr -> Registry.result ~id ~status:"ok" ~key:("err+" ^ semclass) ()
            | _ -> Registry.result ~id ~status:"diff" ~key:"class" ~detail:"impl err, model differs" ()))
  | Sexp.List (Sexp.Atom "ok" :: fields) ->
      let (d, s) = impl_ok_of_sexp fields in
      (match sem0 with
       | B2Err B2Syntax | B2Err B2Unsupported ->
           Registry.result ~id ~status:"skip" ~key:("accepted-outside-reference:" ^ semclass ^ ":" ^ first_sem_error ctext)
             ~detail:"accepted, but the reference interpreter cannot read the text (lenient number syntax)" ()
       | B2Err B2IllSorted -> Registry.result ~id ~status:"fail" ~key:"accepts-ill-sorted" ()
       | B2Err e -> Registry.result ~id ~status:"fail" ~key:("accepts-ill-sorted:" ^ sem_err_name e) ()
       | B2Ok s0 ->
           (* model vs implementation *)
           let sizes = tree_sizes d in
           let total = Array.fold_left (fun a k -> min (1 lsl 40) (a + k)) 0 sizes in
           (* the FINAL system of parse_str (after improve_state_names and demotion) against the model's final system:
              [demote raw] with [ren] applied at the symbol leaves (shared graphs stay shared), and - whenever a renaming
              took place and the expanded trees are small - the eagerly computed Model.parse_text_v itself
              (= demote (rename_sys ren raw), the system the theorems C08_final_* / C18_final_* are about), names included *)
           let corr =
             match parse_text_raw_v code_variant dbg ctext with
             | POk (raw, ren) ->
                 (match compare_sys d s (demote raw) ren with
                  | Some w -> Some ("system: " ^ w)
                  | None ->
                      if ren <> [] && total < 200000 then
                        (match parse_text_v code_variant dbg ctext with
                         | POk fin -> (match compare_sys d s fin [] with None -> None | Some w -> Some ("final system (eager): " ^ w))
                         | _ -> Some "class: impl ok, eager model not")
                      else None)
             | _ -> Some "class: impl ok, model not" in
           if total > 3000000 then
             (match corr with
              | Some w -> Registry.result ~id ~status:"diff" ~key:"system" ~detail:w ()
              | None -> Registry.result ~id ~status:"skip" ~key:"too-large-to-evaluate" ())
           else begin
             let g i = d.nodes.(i) in
             let nin = int_of_nat s0.m_nin in
             let sstates = s0.m_states in
             let plain = List.filter is_plain_ss sstates and nonplain = List.filter (fun x -> not (is_plain_ss x)) sstates in
             let problem = ref None in
             let note k = if !problem = None then problem := Some k in
             if List.length s.i_inputs <> nin + List.length plain then note "structure:input-count";
             if List.length s.i_states <> List.length nonplain then note "structure:state-count";
             if List.length s.i_outputs <> List.length s0.m_outputs then note "structure:output-count";
             if List.length s.i_bads <> List.length s0.m_bads then note "structure:bad-count";
             if List.length s.i_constraints <> List.length s0.m_constraints then note "structure:constraint-count";
             if !problem = None then begin
               (* symbol of the k-th state line of the text *)
               let state_sym : expr array =
                 let res = Array.make (List.length sstates) (BVLiteral (N0, N0)) in
                 let pi = ref 0 and ni = ref 0 in
                 List.iteri (fun j ss ->
                     if is_plain_ss ss then (res.(j) <- g (List.nth s.i_inputs (nin + !pi)); incr pi)
                     else (let (sy, _, _) = List.nth s.i_states !ni in res.(j) <- g sy; incr ni)) sstates;
                 res in
               List.iteri (fun j ss -> if type_of state_sym.(j) <> ss.ss_sort then note "sort:state") sstates;
               let st = Random.State.make [| vseed |] in
               let syms = List.map g s.i_inputs @ List.map (fun (sy, _, _) -> g sy) s.i_states in
               for trial = 0 to 3 do
                 if !problem = None then begin
                   let asg = List.map (fun sy ->
                       match sy with
                       | BVSymbol (_, w) -> (sy, SV (pick_value st trial w))
                       | ArraySymbol (_, _, dw) ->
                           let a = pick_value st trial dw and b = pick_value st trial dw in
                           (sy, SF (fun i -> N.modulo (N.add (N.mul a i) b) (pow2 dw)))
                       | _ -> (sy, SV N0)) syms in
                   let look sy = try List.assoc sy asg with Not_found -> SV N0 in
                   let rho = { rho_bv = (fun nm w -> match look (BVSymbol (nm, w)) with SV v -> v | _ -> N0);
                               rho_arr = (fun nm iw dw -> match look (ArraySymbol (nm, iw, dw)) with SF f -> f | _ -> (fun _ -> N0)) } in
                   let sym_bv (e : expr) = match look e with SV v -> v | _ -> N0 in
                   let sym_arr (e : expr) = match look e with SF f -> f | _ -> (fun _ -> N0) in
                   let input_sym k = let k = int_of_nat k in if k < nin then g (List.nth s.i_inputs k) else BVLiteral (N0, N0) in
                   let state_sym' k = let k = int_of_nat k in if k < Array.length state_sym then state_sym.(k) else BVLiteral (N0, N0) in
                   let vl = { in_bv = (fun k -> sym_bv (input_sym k)); in_arr = (fun k -> sym_arr (input_sym k));
                              st_bv = (fun k -> sym_bv (state_sym' k)); st_arr = (fun k -> sym_arr (state_sym' k)) } in
                   (match sem_text vl ctext with
                    | B2Err _ -> note "reference-unstable"
                    | B2Ok sm ->
                        List.iteri (fun k sv -> if not (value_eq st sv rho (g (snd (List.nth s.i_outputs k)))) then note "value:output") sm.m_outputs;
                        List.iteri (fun k sv -> if not (value_eq st sv rho (g (List.nth s.i_bads k))) then note "value:bad") sm.m_bads;
                        List.iteri (fun k sv -> if not (value_eq st sv rho (g (List.nth s.i_constraints k))) then note "value:constraint") sm.m_constraints;
                        let ni = ref 0 in
                        List.iter (fun ss ->
                            if not (is_plain_ss ss) then begin
                              let (_, i, n) = List.nth s.i_states !ni in
                              incr ni;
                              (match ss.ss_init, i with
                               | None, None -> ()
                               | Some sv, Some e -> if not (value_eq st sv rho (g e)) then note "value:init"
                               | _ -> note "structure:init-presence");
                              (match ss.ss_next, n with
                               | None, None -> ()
                               | Some sv, Some e -> if not (value_eq st sv rho (g e)) then note "value:next"
                               | _ -> note "structure:next-presence")
                            end) sm.m_states;
                        (* inputs: declared sorts *)
                        for k = 0 to nin - 1 do
                          ignore k
                        done)
                 end
               done
             end;
             match !problem, corr with
             | Some k, _ -> Registry.result ~id ~status:"fail" ~key:k ~detail:"implementation's system vs reference interpreter on the text" ()
             | None, Some w -> Registry.result ~id ~status:"diff" ~key:"system" ~detail:w ()
             | None, None -> Registry.result ~id ~status:"ok" ~key:"ok" ()
           end)
  | _ -> raise (Sexp.Parse_error "impl")

let () = Registry.register "C08" handle_c08
