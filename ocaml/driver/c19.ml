(* C19: arithmetic e-graph rewrites.  Case kinds (see harness/src/c19.rs):
     table      pattern ASTs of create_rewrites()           vs  Model.rules
     cond       ArithRewrite::eval_condition                vs  Model.eval_condition
     inst       instantiate + from_arith + eval_expr        vs  Model.inst/subst_of, Model.from_arith, Model.ebv
                property oracle: side condition true  ==>  both sides have the same value on every operand tuple
     roundtrip  to_arith / from_arith                       vs  Model.to_arith / Model.roundtrip, Model.ebv
                property oracle: expression of the supported shape ==> result exists, same width, same value
     lower      from_arith on arbitrary ground terms        vs  Model.from_arith                               *)
open Model
open Conv

(* which variant of the to_arith model mirrors the code in /repo:
     Cur = as shipped (remove_ext keeps only the outermost extension kind: finding roundtrip:mixed-ext-chain);
     Fix = with patches/0001-fix-to_arith-mixed-extension-chain.diff applied (theorem arith_roundtrip_fixed).
   Flip to Fix together with the fix: commit in /repo. *)
let code_variant = Fix

(* which variant of the rule table (side conditions) mirrors the code in /repo:
     Cur = as shipped (findings rule:{unmerge,merge}-left-shift:rhs-*-overflows-u32);
     Fix = with patches/0016-fix-egraph-rules-derived-width-fits-u32.diff applied (theorems rule_*_sound_fixed).
   Flip to Fix together with the fix: commit in /repo. *)
let rules_variant = Fix
let rules = rules_v rules_variant

let rec arith_of_sexp (x : Sexp.t) : arith =
  let open Sexp in
  let a = arith_of_sexp in
  let bin op = function
    | [c0; c1; c2; c3; c4; c5; c6] -> ABin (op, a c0, a c1, a c2, a c3, a c4, a c5, a c6)
    | _ -> raise (Parse_error "binop arity") in
  match x with
  | List [Atom "W"; w] -> AWidth (num w)
  | List [Atom "sign"] -> ASign true
  | List [Atom "unsign"] -> ASign false
  | List [Atom "const"; v] -> AConst (num v)
  | List [Atom "symbol"; n] -> ASymbol (name n)
  | List [Atom "var"; n] -> AVar (name n)
  | List [Atom "max+1"; p; q] -> AMaxP1 (a p, a q)
  | List [Atom "wlsh"; p; q] -> AWlsh (a p, a q)
  | List (Atom "+" :: cs) -> bin OAdd cs
  | List (Atom "-" :: cs) -> bin OSub cs
  | List (Atom "*" :: cs) -> bin OMul cs
  | List (Atom "<<" :: cs) -> bin OShl cs
  | List (Atom ">>" :: cs) -> bin OLshr cs
  | List (Atom ">>>" :: cs) -> bin OAshr cs
  | _ -> raise (Parse_error ("bad arith " ^ Sexp.to_string x))

let rec sexp_of_arith (t : arith) : Sexp.t =
  let open Sexp in
  let s = sexp_of_arith in
  match t with
  | ABin (op, c0, c1, c2, c3, c4, c5, c6) ->
      let tag = (match op with OAdd -> "+" | OSub -> "-" | OMul -> "*" | OShl -> "<<" | OLshr -> ">>" | OAshr -> ">>>") in
      List (Atom tag :: List.map s [c0; c1; c2; c3; c4; c5; c6])
  | AMaxP1 (p, q) -> List [Atom "max+1"; s p; s q]
  | AWlsh (p, q) -> List [Atom "wlsh"; s p; s q]
  | AWidth w -> List [Atom "W"; Atom (dec_of_n w)]
  | ASign true -> List [Atom "sign"]
  | ASign false -> List [Atom "unsign"]
  | AConst v -> List [Atom "const"; Atom (dec_of_n v)]
  | ASymbol n -> List [Atom "symbol"; Str (ocamlstr n)]
  | AVar n -> List [Atom "var"; Str (ocamlstr n)]

let show_arith t = Sexp.to_string (sexp_of_arith t)
let show_expr e = Sexp.to_string (sexp_of_expr e)
let show_res_expr = function Ok e -> show_expr e | Panic -> "(panic)"
let show_res_arith = function Ok t -> show_arith t | Panic -> "(panic)"
let show_res_bool = function Ok true -> "true" | Ok false -> "false" | Panic -> "(panic)"

let parse_asg (items : Sexp.t list) : (char list * n) list =
  List.map (function
      | Sexp.List [k; v] -> (name k, num v)
      | x -> raise (Sexp.Parse_error ("bad assignment entry " ^ Sexp.to_string x))) items

let rule_name (r : rule) = ocamlstr r.r_name

(* environment from (syms ("a" 3) ..) and one value tuple *)
let env_of (syms : (char list * n) list) (vals : n list) : env =
  let tbl = List.combine syms vals in
  { rho_bv = (fun nm w ->
        match List.find_opt (fun ((n', w'), _) -> n' = nm && w' = w) tbl with Some (_, v) -> v | None -> N0);
    rho_arr = (fun _ _ _ _ -> N0) }

let parse_syms (items : Sexp.t list) : (char list * n) list =
  List.map (function
      | Sexp.List [k; w] -> (name k, num w)
      | x -> raise (Sexp.Parse_error ("bad syms entry " ^ Sexp.to_string x))) items

let width_txt (e : expr) = match type_of e with TBV w -> dec_of_n w | TArr _ -> "array"

let value_txt (rho : env) (e : expr res) : string =
  match e with
  | Panic -> "x"
  | Ok e -> (match type_of e with
      | TBV w -> "b" ^ bits_of_n_loose (int_of_n w) (ebv rho e)
      | TArr _ -> "array")

(* returns (first model/impl value mismatch, first tuple on which the two implementation values differ, #tuples) *)
let check_vals (syms : (char list * n) list) (vals : Sexp.t list) (ml : expr res) (mr : expr res) =
  let nsyms = List.length syms in
  let mismatch = ref None and differ = ref None and n = ref 0 in
  List.iter (fun t ->
      let items = Sexp.list t in
      let ops = List.filteri (fun i _ -> i < nsyms) items in
      let l = Sexp.atom (List.nth items nsyms) and r = Sexp.atom (List.nth items (nsyms + 1)) in
      let rho = env_of syms (List.map num ops) in
      incr n;
      let el = value_txt rho ml and er = value_txt rho mr in
      if !mismatch = None && (el <> l || er <> r) then
        mismatch := Some (Printf.sprintf "operands %s: impl (%s, %s) model (%s, %s)" (Sexp.to_string (Sexp.List ops)) l r el er);
      if !differ = None && l <> r then
        differ := Some (Printf.sprintf "operands %s: lhs=%s rhs=%s" (Sexp.to_string (Sexp.List ops)) l r)) vals;
  (!mismatch, !differ, !n)

let handle_table id fs =
  let impl = List.map (function
      | Sexp.List [Sexp.Atom "rule"; n; l; r] -> (Sexp.atom n, arith_of_sexp l, arith_of_sexp r)
      | x -> raise (Sexp.Parse_error ("bad rule " ^ Sexp.to_string x))) (Sexp.field "rules" fs) in
  let model = List.map (fun r -> (rule_name r, r.r_lhs, r.r_rhs)) rules in
  let problems = ref [] in
  List.iter (fun (n, l, r) ->
      match List.find_opt (fun (n', _, _) -> n' = n) model with
      | None -> problems := Printf.sprintf "rule %s of the implementation is not in the model (not covered by any theorem)" n :: !problems
      | Some (_, ml, mr) ->
          if not (arith_eqb l ml) then problems := Printf.sprintf "rule %s: lhs pattern %s, model %s" n (show_arith l) (show_arith ml) :: !problems;
          if not (arith_eqb r mr) then problems := Printf.sprintf "rule %s: rhs pattern %s, model %s" n (show_arith r) (show_arith mr) :: !problems) impl;
  List.iter (fun (n, _, _) ->
      if not (List.exists (fun (n', _, _) -> n' = n) impl) then problems := Printf.sprintf "model rule %s is not in the implementation" n :: !problems) model;
  if List.map (fun (n, _, _) -> n) impl <> List.map (fun (n, _, _) -> n) model && !problems = [] then
    problems := ["rule order differs"];
  match !problems with
  | [] -> Registry.result ~id ~status:"ok" ~key:"table" ~detail:(Printf.sprintf "%d rules" (List.length impl)) ()
  | ps -> Registry.result ~id ~status:"diff" ~key:"table:rule-set-changed" ~detail:(String.concat "; " (List.rev ps)) ()

let handle_cond id fs =
  let rn = Sexp.atom (Sexp.field1 "rule" fs) in
  let asg = parse_asg (Sexp.field "assign" fs) in
  let impl = Sexp.to_string (Sexp.field1 "impl" fs) in
  match find_rule (coqstr rn) rules with
  | None -> Registry.result ~id ~status:"diff" ~key:("cond:unknown-rule:" ^ rn) ~detail:"rule not in the model" ()
  | Some r ->
      let m = show_res_bool (eval_condition r asg) in
      if m = impl then Registry.result ~id ~status:"ok" ~key:("cond:" ^ rn) ()
      else Registry.result ~id ~status:"diff" ~key:("cond:" ^ rn) ~detail:(Printf.sprintf "side condition: impl=%s model=%s" impl m) ()

let handle_inst id fs =
  let rn = Sexp.atom (Sexp.field1 "rule" fs) in
  let asg = parse_asg (Sexp.field "assign" fs) in
  let lhs = arith_of_sexp (Sexp.field1 "lhs" fs) and rhs = arith_of_sexp (Sexp.field1 "rhs" fs) in
  let cond = Sexp.to_string (Sexp.field1 "cond" fs) in
  let impl_l = Sexp.to_string (Sexp.field1 "impl_lhs" fs) and impl_r = Sexp.to_string (Sexp.field1 "impl_rhs" fs) in
  let syms = parse_syms (Sexp.field "syms" fs) in
  let vals = Sexp.field "vals" fs in
  (* the lowering and the values are compared with the model for every rule the implementation ships,
     known to the model or not: they only depend on the instantiated terms *)
  let ml = from_arith N0 lhs and mr = from_arith N0 rhs in
  let diffs = ref [] in
  let add s = diffs := s :: !diffs in
  (match find_rule (coqstr rn) rules with
   | None -> add (Printf.sprintf "rule %s is not in the model: no theorem covers it" rn)
   | Some r ->
       let sigma = subst_of asg [] in
       let ml_t = inst sigma r.r_lhs and mr_t = inst sigma r.r_rhs in
       let mcond = show_res_bool (eval_condition r asg) in
       if not (arith_eqb ml_t lhs) then add (Printf.sprintf "instantiated lhs: impl %s model %s" (show_arith lhs) (show_arith ml_t));
       if not (arith_eqb mr_t rhs) then add (Printf.sprintf "instantiated rhs: impl %s model %s" (show_arith rhs) (show_arith mr_t));
       if mcond <> cond then add (Printf.sprintf "side condition: impl %s model %s" cond mcond));
  if show_res_expr ml <> impl_l then add (Printf.sprintf "from_arith lhs: impl %s model %s" impl_l (show_res_expr ml));
  if show_res_expr mr <> impl_r then add (Printf.sprintf "from_arith rhs: impl %s model %s" impl_r (show_res_expr mr));
  let (mismatch, differ, n) = check_vals syms vals ml mr in
  (match mismatch with Some m -> add ("value: " ^ m) | None -> ());
  (* property oracle, on the implementation's observations only *)
  let widths_differ =
    (match (try Some (expr_of_sexp (Sexp.field1 "impl_lhs" fs), expr_of_sexp (Sexp.field1 "impl_rhs" fs)) with _ -> None) with
     | Some (a, b) -> if width_txt a <> width_txt b then Some (width_txt a, width_txt b) else None
     | None -> None) in
  if cond = "true" && (impl_l = "(panic)" || impl_r = "(panic)") then begin
    (* precise class for the recorded findings: the *only* panic is the u32 overflow of the derived
       width on the right-hand side (decided by the model's width functions on the assignment) *)
    let w k = match List.assoc_opt (coqstr k) asg with Some v -> v | None -> N0 in
    let key =
      if impl_l <> "(panic)" && rn = "unmerge-left-shift" && eval_width_left_shift (w "?wa") (w "?wb") = Panic
      then "rule:unmerge-left-shift:rhs-wlsh-overflows-u32"
      else if impl_l <> "(panic)" && rn = "merge-left-shift" && eval_width_max_plus_1 (w "?wb") (w "?wc") = Panic
      then "rule:merge-left-shift:rhs-max+1-overflows-u32"
      else "rule:" ^ rn ^ ":lowering-panics" in
    Registry.result ~id ~status:"fail" ~key
      ~detail:(Printf.sprintf "side condition holds but from_arith panics: lhs=%s rhs=%s" impl_l impl_r) ()
  end
  else if cond = "true" && widths_differ <> None then
    Registry.result ~id ~status:"fail" ~key:("rule:" ^ rn ^ ":width")
      ~detail:(match widths_differ with Some (a, b) -> Printf.sprintf "side condition holds, widths %s vs %s" a b | None -> "") ()
  else if cond = "true" && differ <> None then
    Registry.result ~id ~status:"fail" ~key:("rule:" ^ rn ^ ":unsound")
      ~detail:(Printf.sprintf "side condition holds but the sides differ: %s" (match differ with Some d -> d | None -> "")) ()
  else if !diffs <> [] then
    Registry.result ~id ~status:"diff" ~key:("inst:" ^ rn) ~detail:(String.concat "; " (List.rev !diffs)) ()
  else
    Registry.result ~id ~status:"ok" ~key:("inst:" ^ rn ^ ":" ^ cond) ~detail:(Printf.sprintf "%d tuples" n) ()

let handle_roundtrip id fs =
  let e = expr_of_sexp (Sexp.field1 "expr" fs) in
  let impl_a = Sexp.to_string (Sexp.field1 "impl_arith" fs) and impl_b = Sexp.to_string (Sexp.field1 "impl_back" fs) in
  let syms = parse_syms (Sexp.field "syms" fs) in
  let vals = Sexp.field "vals" fs in
  let ma = to_arith_v code_variant e in
  let mb = roundtrip_v code_variant e in
  let diffs = ref [] in
  let add s = diffs := s :: !diffs in
  if show_res_arith ma <> impl_a then add (Printf.sprintf "to_arith: impl %s model %s" impl_a (show_res_arith ma));
  if show_res_expr mb <> impl_b then add (Printf.sprintf "from_arith(to_arith): impl %s model %s" impl_b (show_res_expr mb));
  let (mismatch, differ, n) = check_vals syms vals (Ok e) mb in
  (match mismatch with Some m -> add ("value: " ^ m) | None -> ());
  let in_domain = wt e && roundtrip_domain code_variant e in
  let cls = if convertible e then "uniform-ext" else "mixed-ext-chain" in
  if in_domain then begin
    let back = (try Some (expr_of_sexp (Sexp.field1 "impl_back" fs)) with _ -> None) in
    match back with
    | None ->
        Registry.result ~id ~status:"fail" ~key:("roundtrip:panic:" ^ cls) ~detail:(Printf.sprintf "supported expression, to_arith=%s back=%s" impl_a impl_b) ()
    | Some b ->
        if width_txt b <> width_txt e then
          Registry.result ~id ~status:"fail" ~key:("roundtrip:width:" ^ cls) ~detail:(Printf.sprintf "width %s became %s" (width_txt e) (width_txt b)) ()
        else (match differ with
            | Some d -> Registry.result ~id ~status:"fail" ~key:("roundtrip:" ^ cls) ~detail:(Printf.sprintf "value changed: %s; back=%s" d impl_b) ()
            | None ->
                if !diffs <> [] then Registry.result ~id ~status:"diff" ~key:"roundtrip" ~detail:(String.concat "; " (List.rev !diffs)) ()
                else Registry.result ~id ~status:"ok" ~key:("roundtrip:" ^ cls) ~detail:(Printf.sprintf "%d tuples" n) ())
  end else begin
    if !diffs <> [] then Registry.result ~id ~status:"diff" ~key:"roundtrip:outside-domain" ~detail:(String.concat "; " (List.rev !diffs)) ()
    else Registry.result ~id ~status:"ok" ~key:"roundtrip:outside-domain" ~detail:impl_b ()
  end

let handle_lower id fs =
  let t = arith_of_sexp (Sexp.field1 "arith" fs) in
  let impl = Sexp.to_string (Sexp.field1 "impl" fs) in
  let m = show_res_expr (from_arith N0 t) in
  if m = impl then Registry.result ~id ~status:"ok" ~key:(if impl = "(panic)" then "lower:panic" else "lower:ok") ()
  else Registry.result ~id ~status:"diff" ~key:"lower" ~detail:(Printf.sprintf "from_arith: impl %s model %s" impl m) ()

let handle (x : Sexp.t) : string =
  let id, fs = case_fields x in
  match Sexp.atom (Sexp.field1 "kind" fs) with
  | "table" -> handle_table id fs
  | "cond" -> handle_cond id fs
  | "inst" -> handle_inst id fs
  | "roundtrip" -> handle_roundtrip id fs
  | "lower" -> handle_lower id fs
  | k -> Registry.result ~id ~status:"error" ~key:"-" ~detail:("unknown case kind " ^ k) ()

let () = Registry.register "C19" handle
