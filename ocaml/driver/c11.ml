(* C11: system-level transformations.
   (case ID (op simplify|zero) (sys ...) (impl (sys ...)|(panic)) (panicloc ".."))
   correspondence : extracted Model.simplify_sys / replace_anonymous_inputs_with_zero = implementation's system (exact)
   property oracle: same inputs/states; every init/next/output/bad/constraint function of the result evaluates like the
                    original (under the valuation with the removed inputs set to zero for op = zero), on corner/random
                    valuations; lock-step simulation of both systems with the extracted reference semantics;
                    for op = zero: no removed input occurs anywhere in the result *)
open Model
open Conv

let sexp_of_sys (s : sys) : Sexp.t =
  let open Sexp in
  let e = sexp_of_expr in
  List [ Atom "sys";
         List (Atom "inputs" :: List.map e s.s_inputs);
         List (Atom "states" :: List.map (fun st ->
             List ([Atom "state"; e st.st_sym]
                   @ (match st.st_init with Some i -> [List [Atom "init"; e i]] | None -> [])
                   @ (match st.st_next with Some n -> [List [Atom "next"; e n]] | None -> []))) s.s_states);
         List (Atom "outputs" :: List.map (fun (n, x) -> List [Str (ocamlstr n); e x]) s.s_outputs);
         List (Atom "bads" :: List.map e s.s_bads);
         List (Atom "constraints" :: List.map e s.s_constraints) ]

let find_sys (fs : Sexp.t list) : Sexp.t =
  match List.find_opt (function Sexp.List (Sexp.Atom "sys" :: _) -> true | _ -> false) fs with
  | Some s -> s | None -> raise (Sexp.Parse_error "no (sys ..) field")

let all_syms (s : sys) : expr list = List.fold_left (fun acc e -> Evalutil.syms e acc) [] (all_exprs s)

let funcs (s : sys) : (string * expr) list =
  List.concat (List.mapi (fun k st ->
      (match st.st_init with Some i -> [(Printf.sprintf "init%d" k, i)] | None -> [])
      @ (match st.st_next with Some n -> [(Printf.sprintf "next%d" k, n)] | None -> [])) s.s_states)
  @ List.mapi (fun k (_, e) -> (Printf.sprintf "output%d" k, e)) s.s_outputs
  @ List.mapi (fun k e -> (Printf.sprintf "bad%d" k, e)) s.s_bads
  @ List.mapi (fun k e -> (Printf.sprintf "constraint%d" k, e)) s.s_constraints

let same_value st rho1 e1 rho2 e2 : bool =
  match type_of e1 with
  | TBV _ -> ebv rho1 e1 = ebv rho2 e2
  | TArr (iw, _) -> List.for_all (fun i -> earr rho1 e1 i = earr rho2 e2 i) (Evalutil.sample_indices st iw)

let handle (x : Sexp.t) : string =
  let id, fs = case_fields x in
  let op = Sexp.atom (Sexp.field1 "op" fs) in
  let sy = sys_of_sexp (find_sys fs) in
  let impl_s = Sexp.field1 "impl" fs in
  let st = Random.State.make [| Hashtbl.hash id; 11 |] in
  let model : sys option =
    if op = "simplify" then
      simplify_sys_default sy
    else Some (replace_anonymous_inputs_with_zero sy) in
  let model_txt = match model with Some m -> Sexp.to_string (sexp_of_sys m) | None -> "(panic)" in
  let impl_txt = Sexp.to_string impl_s in
  Registry.set_model_lazy (fun () -> Printf.sprintf "(c11 %s %s)" model_txt (if sys_ok sy then "true" else "false"));
  if impl_txt = "(panic)" then begin
    let loc = match Sexp.field_opt "panicloc" fs with Some [l] -> Sexp.atom l | _ -> "?" in
    if sys_ok sy then Registry.result ~id ~status:"fail" ~key:("panic@" ^ loc) ~detail:("implementation panics; model=" ^ (if model = None then "(panic)" else "ok")) ()
    else Registry.result ~id ~status:"skip" ~key:"ill-formed-input" ()
  end else begin
    let r = sys_of_sexp impl_s in
    let problems = ref [] in
    let add p = problems := p :: !problems in
    if not (sys_ok sy) then add "input system not well-formed (generator bug)";
    if not (sys_ok r) then add "result system is not well-formed (sys_ok)";
    let removed = if op = "zero" then List.filter is_anonymous sy.s_inputs else [] in
    let expected_inputs = List.filter (fun i -> not (List.exists (expr_eqb i) removed)) sy.s_inputs in
    if List.map (fun e -> Sexp.to_string (sexp_of_expr e)) r.s_inputs <> List.map (fun e -> Sexp.to_string (sexp_of_expr e)) expected_inputs
    then add "inputs differ";
    if op = "simplify" && List.map (fun s -> s.st_sym) r.s_states <> List.map (fun s -> s.st_sym) sy.s_states then add "state symbols differ";
    let f0 = funcs sy and f1 = funcs r in
    if List.map fst f0 <> List.map fst f1 then add "the sets of init/next/output/bad/constraint functions differ"
    else if !problems = [] then begin
      (* removed inputs must not occur in the result *)
      List.iter (fun rm -> List.iter (fun (nm, e) -> if occurs rm e then add ("removed input still occurs in " ^ nm)) f1) removed;
      (* function-by-function equivalence *)
      let ss = all_syms sy in
      let asgs = Evalutil.assignments st ss in
      let zeroed asg = List.map (fun (s, v) ->
          if List.exists (expr_eqb s) removed then (s, (match v with Evalutil.VB _ -> Evalutil.VB N0 | Evalutil.VA _ -> Evalutil.VA (N0, N0))) else (s, v)) asg in
      (try
         List.iter (fun asg ->
             let rho1 = Evalutil.env_of (zeroed asg) and rho2 = Evalutil.env_of asg in
             List.iter2 (fun (nm, e0) (_, e1) ->
                 if not (same_value st rho1 e0 rho2 e1) then begin
                   add (Printf.sprintf "%s differs from the original" nm); raise Exit end) f0 f1) asgs
       with Exit -> ());
      (* lock-step simulation with the reference semantics *)
      if !problems = [] then begin
        (* one base valuation and one list of free valuations, shared by both systems *)
        let pool = Array.of_list (List.map (fun a -> Evalutil.env_of (zeroed a)) asgs) in
        let base = pool.(Array.length pool - 1) in
        let rho_a = ref (init_seq sy base) and rho_b = ref (init_seq r base) in
        (try
           for step = 0 to 7 do
             List.iter2 (fun (nm, e0) (_, e1) ->
                 if String.length nm >= 3 && (String.sub nm 0 3 = "bad" || String.sub nm 0 3 = "out" || String.sub nm 0 3 = "con") then
                   if not (same_value st !rho_a e0 !rho_b e1) then begin
                     add (Printf.sprintf "lock-step simulation: %s differs at step %d" nm step); raise Exit end) f0 f1;
             let free = pool.(step mod Array.length pool) in
             rho_a := next_env sy !rho_a free;
             rho_b := next_env r !rho_b free
           done
         with Exit -> ())
      end
    end;
    if !problems <> [] then
      Registry.result ~id ~status:"fail" ~key:("not-preserved:" ^ op) ~detail:(String.concat "; " !problems) ()
    else if model_txt <> impl_txt then
      Registry.result ~id ~status:"diff" ~key:op ~detail:(Printf.sprintf "impl=%s model=%s" impl_txt model_txt) ()
    else Registry.result ~id ~status:"ok" ~key:op ()
  end

let () = Registry.register "C11" handle
