(* C01: the simplifier.  Case:
   (case ID (expr E) (impl R|(panic)) (impl_dense same|R) (tc ok|fail|na) (ty same|changed|na) (again same|R|na) (panicloc ".."))
   correspondence : Model.simp_default E  vs  R   (exact tree)
   property oracle: R well-typed (extracted wt + the implementation's own checker), same type,
                    and ebv/earr agree with E under corner + pseudo-random assignments
                    (exhaustive when the symbols total <= 10 bits and there is no array symbol). *)
open Model
open Conv

open Evalutil

let root_op fs = Sexp.atom (List.hd (Sexp.list (Sexp.field1 "expr" fs)))

let handle (x : Sexp.t) : string =
  let id, fs = case_fields x in
  let e = expr_of_sexp (Sexp.field1 "expr" fs) in
  let impl_s = Sexp.field1 "impl" fs in
  let st = Random.State.make [| Hashtbl.hash id; 17 |] in
  let model = simp_default e in
  let model_txt = match model with
    | SOk r -> Sexp.to_string (sexp_of_expr r)
    | SPanic -> "(panic)"
    | SFuel -> "(outoffuel)" in
  let impl_txt = Sexp.to_string impl_s in
  (* kernel cross-check: the model's tree, wt/type_of of the input, and (bit-vector inputs) the value of the input and of the
     model's result under the all-ones valuation *)
  Registry.set_model_lazy (fun () ->
      let ty_txt t = match t with TBV w -> Printf.sprintf "(bv %s)" (dec_of_n w) | TArr (iw, dw) -> Printf.sprintf "(arr %s %s)" (dec_of_n iw) (dec_of_n dw) in
      let rho1 = { rho_bv = (fun _ w -> Evalutil.ones w); rho_arr = (fun _ _ dw -> fun i -> N.modulo i (Evalutil.pow2 dw)) } in
      let v x = match type_of x with TBV w -> "b" ^ bits_of_n_loose (int_of_n w) (ebv rho1 x) | TArr _ -> "array" in
      Printf.sprintf "(c01 %s %s %s %s %s)" model_txt (if wt e then "true" else "false") (ty_txt (type_of e)) (v e)
        (match model with SOk r -> v r | _ -> "none"));
  let flag k = match Sexp.field_opt k fs with Some [v] -> Sexp.to_string v | _ -> "" in
  if impl_txt = "(panic)" then begin
    let loc = match Sexp.field_opt "panicloc" fs with Some [l] -> Sexp.atom l | _ -> "?" in
    (* a crash of the simplifier on a well-typed expression yields no simplified expression at all *)
    if wt e then Registry.result ~id ~status:"fail" ~key:("panic@" ^ loc) ~detail:(Printf.sprintf "implementation panics; model=%s" model_txt) ()
    else Registry.result ~id ~status:(if model_txt = "(panic)" then "ok" else "diff") ~key:("panic@" ^ loc) ~detail:"ill-typed input" ()
  end else begin
    let r = expr_of_sexp impl_s in
    let problems = ref [] in
    if not (wt e) then problems := "input not well-typed (generator bug)" :: !problems;
    if not (wt r) then problems := "result is not well-typed (extracted wt)" :: !problems;
    if flag "tc" <> "ok" then problems := "result fails the implementation's own type_check" :: !problems;
    if type_of r <> type_of e || flag "ty" <> "same" then problems := "result type differs from the input type" :: !problems;
    (if !problems = [] then
       match find_diff st e r with
       | Some asg -> problems := ("value differs under " ^ asg) :: !problems
       | None -> ());
    (* the same soundness oracle on the model's own result: a failure there is a defect of the proof/model *)
    let dense = flag "impl_dense" in
    if !problems <> [] then
      Registry.result ~id ~status:"fail" ~key:("unsound:" ^ root_op fs) ~detail:(String.concat "; " !problems ^ "  impl=" ^ impl_txt) ()
    else if dense <> "same" then
      Registry.result ~id ~status:"diff" ~key:"dense-vs-sparse" ~detail:("dense cache result differs: " ^ dense) ()
    else if model_txt <> impl_txt then
      Registry.result ~id ~status:"diff" ~key:(root_op fs) ~detail:(Printf.sprintf "impl=%s model=%s" impl_txt model_txt) ()
    else Registry.result ~id ~status:"ok" ~key:(root_op fs) ()
  end

let () = Registry.register "C01" handle
