#!/bin/sh
# tools/try_mutation.sh <Cxx> <mutated-repo-dir> [tier]
# Runs ./check Cxx against a MUTATED COPY of cucapra/patronus without touching /repo: uses the scratch worktree
# /work/MUT of /verif (reset to main), with the harness path dependencies redirected to <mutated-repo-dir>.
set -e
P=$1; R=$2; T=${3:-quick}
V=$(cd "$(dirname "$0")/.." && pwd)
M=${MUT_DIR:-/work/MUT}   # several confirmations can run side by side with different MUT_DIRs
if [ ! -d "$M" ]; then
  mkdir -p /work
  git -C "$V" worktree add -q -f "$M" -B wt-$(basename "$M") main
  # copy the build products of the main tree so that the first run is incremental
  rsync -a --include="*/" --include="*.vo" --include="*.vos" --include="*.vok" --include="*.glob" --include=".*.aux" --exclude="*" "$V/coq/" "$M/coq/"
  mkdir -p "$M/.build"
  for d in ocaml cargo; do [ -d "$V/.build/$d" ] && cp -a "$V/.build/$d" "$M/.build/$d"; done
  find "$M/coq" \( -name '*.vo' -o -name '*.vos' -o -name '*.vok' -o -name '*.glob' \) -exec touch {} +
fi
cd "$M"
git checkout -q wt-$(basename "$M") 2>/dev/null || true
git reset -q --hard main
sed -i "s#/repo/patronus#$R/patronus#g" harness/Cargo.toml
cp -f "$R/Cargo.lock" harness/Cargo.lock 2>/dev/null || cp -f /repo/Cargo.lock harness/Cargo.lock
python3 tools/gen_coqproject.py && (cd coq && timeout 3000 make -j16 >/dev/null 2>&1 || true)
./check "$P" "$T" 2>&1 | grep -v "^KNOWN-FINDING" | tail -3
