#!/bin/sh
# tools/try_mutation.sh <Cxx> <mutated-repo-dir> [tier]
# Runs ./check Cxx against a MUTATED COPY of cucapra/patronus without touching /repo: uses the scratch worktree
# /work/MUT of /verif (reset to main), with the harness path dependencies redirected to <mutated-repo-dir>.
set -e
P=$1; R=$2; T=${3:-quick}
V=$(cd "$(dirname "$0")/.." && pwd)
M=/work/MUT
[ -d "$M" ] || git -C "$V" worktree add -q -f "$M" -B wt-MUT main
cd "$M"
git checkout -q wt-MUT 2>/dev/null || true
git reset -q --hard main
sed -i "s#/repo/patronus#$R/patronus#g" harness/Cargo.toml
cp -f "$R/Cargo.lock" harness/Cargo.lock 2>/dev/null || cp -f /repo/Cargo.lock harness/Cargo.lock
python3 tools/gen_coqproject.py && (cd coq && timeout 3000 make -j16 >/dev/null 2>&1 || true)
./check "$P" "$T" 2>&1 | grep -v "^KNOWN-FINDING" | tail -3
