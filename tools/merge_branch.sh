#!/bin/sh
# tools/merge_branch.sh <branch>: merge a builder branch into main, resolving conflicts in generated files.
set -e
V=$(cd "$(dirname "$0")/.." && pwd)
cd "$V"
if [ -n "$(git status --porcelain --untracked-files=no)" ]; then echo "working tree not clean: commit first"; exit 1; fi
git merge -q "$1" -m "merge $1" >/dev/null 2>&1 || true
for f in coq/Extract.v coq/Makefile.conf coq/_CoqProject coq/.Makefile.d coq/Makefile; do
  git rm -q --cached -f "$f" >/dev/null 2>&1 || true
done
# evidence files are rewritten by every run; take whichever exists
for f in $(git diff --name-only --diff-filter=U | grep '^evidence/' || true); do git checkout --theirs "$f" 2>/dev/null && git add "$f"; done
python3 tools/gen_manifest.py >/dev/null
git add MANIFEST.json
rm -f coq/.Makefile.d coq/Makefile coq/Makefile.conf
python3 tools/gen_coqproject.py

left=$(git diff --name-only --diff-filter=U)
if [ -n "$left" ]; then echo "UNRESOLVED: $left"; exit 1; fi
git commit -q -m "merge $1" || true
echo "merged $1"
