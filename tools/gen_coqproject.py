#!/usr/bin/env python3
"""Regenerate coq/_CoqProject from the .v files present (so nobody edits it by hand)."""
import glob, os
root = os.path.dirname(os.path.dirname(os.path.abspath(__file__)))
coq = os.path.join(root, "coq")
lines = ["-Q theories/Spec Patronus", "-Q theories/Model Patronus", "-Q theories/Proofs Patronus", "-Q theories/Props Patronus",
         "-arg -w -arg -notation-overridden,-deprecated-syntactic-definition,-deprecated-hint-without-locality,-deprecated-instance-without-locality"]
for d in ("Spec", "Model", "Proofs", "Props"):
    for f in sorted(glob.glob(os.path.join(coq, "theories", d, "*.v"))):
        lines.append(os.path.relpath(f, coq))
text = "\n".join(lines) + "\n"
dst = os.path.join(coq, "_CoqProject")
changed = not os.path.exists(dst) or open(dst).read() != text
if changed:
    open(dst, "w").write(text)
mk = os.path.join(coq, "Makefile")
if changed or not os.path.exists(mk):
    os.system("cd %s && coq_makefile -f _CoqProject -o Makefile >/dev/null 2>&1" % coq)
