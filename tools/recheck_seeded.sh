#!/bin/sh
# tools/recheck_seeded.sh <seeded-id>...
# Re-runs recorded seeded changes against the CURRENT /repo HEAD and the CURRENT /verif main: for each id a scratch
# worktree of /repo (under /tmp, removed afterwards) gets seeded/<id>/patch.diff (git apply, then patch --fuzz as a
# fallback), the demonstration is run with the change (it must fail), and ./check <property> quick is run against the
# changed copy through tools/try_mutation.sh.  Result: seeded/<id>/recheck.log and one summary line per id on stdout.
# /repo itself is never modified.
V=$(cd "$(dirname "$0")/.." && pwd)
R=/tmp/seed-recheck
export CARGO_NET_OFFLINE=true RUST_BACKTRACE=0 PATRONUS_TEST_SOLVER=z3
git -C /repo worktree remove --force "$R" 2>/dev/null; git -C /repo worktree prune
git -C /repo worktree add -q --detach "$R" HEAD || exit 2
HEAD=$(git -C /repo rev-parse --short HEAD)
for ID in "$@"; do
  S="$V/seeded/$ID"; P=${ID%%-*}
  log="$S/recheck.log"; : > "$log"
  echo "== re-check of $ID against /repo $HEAD, /verif $(git -C "$V" rev-parse --short HEAD)" >> "$log"
  git -C "$R" checkout -q -- . ; git -C "$R" clean -fdq
  applied=yes
  PATCH="$S/patch.diff"; [ -f "$S/patch-head.diff" ] && PATCH="$S/patch-head.diff"   # the same change re-made by hand on the current tree
  if ! git -C "$R" apply "$PATCH" 2>>"$log"; then
    if ! (cd "$R" && patch -p1 --fuzz=3 --no-backup-if-mismatch < "$PATCH" >> "$log" 2>&1); then applied=no; fi
  fi
  if [ "$applied" = no ]; then
    echo "$ID applies=no" | tee -a "$log"; continue
  fi
  find "$R" -name "*.rej" -o -name "*.orig" | xargs rm -f
  crate=$(grep -o '"demo_crate": *"[^"]*"' "$S/agent_meta.json" 2>/dev/null | cut -d'"' -f4); [ -n "$crate" ] || crate=patronus
  demo=$(ls "$S"/demo*.rs 2>/dev/null | head -1)
  demo_fails=na
  if [ -n "$demo" ]; then
    name=seeded_demo_$(echo "$ID" | tr 'A-Z-' 'a-z_')
    mkdir -p "$R/$crate/tests"; cp "$demo" "$R/$crate/tests/$name.rs"
    fl=""; [ "$P" = C20 ] && fl="--cfg patronus_verif"
    (cd "$R" && RUSTFLAGS="$fl" timeout 1800 cargo test --offline -p "$crate" --test "$name" 2>&1 | grep -E "^test result|^test .*(FAILED|ok)$|^error" | head -20) >> "$log"
    if grep -q "test result: FAILED" "$log"; then demo_fails=yes; elif grep -q "test result: ok" "$log"; then demo_fails=no; else demo_fails=builderror; fi
    rm -f "$R/$crate/tests/$name.rs"
  fi
  echo "== ./check $P quick against the changed copy" >> "$log"
  "$V/tools/try_mutation.sh" "$P" "$R" quick >> "$log" 2>&1
  viol=$(grep -c "^VIOLATION" "$log")
  nf=$(grep -c "no-failing-input-found" "$log")
  echo "$ID applies=yes demo_fails_with_change=$demo_fails violation_lines=$viol no_failing_input=$nf :: $(grep "^VIOLATION" "$log" | head -1 | cut -c1-160)" | tee -a "$log"
done
git -C /repo worktree remove --force "$R"; git -C /repo worktree prune
