"""C13 (simplifier as a memoising canonicaliser): kernel evaluation of the cache-free driver on every batch member and of
the memoising driver model (Model/SimplifyCache.v) on the recorded history, results and final cache.
The driver runs the memoising model with 3 000 000 units of fuel, the kernel with 100 000 (a unary numeral of the former size
per case is not practical inside the kernel); results do not depend on the fuel once it suffices (C13_simp_fuel_independent);
a kernel text containing (outoffuel) where the extracted one has none is counted as not comparable, not as a divergence."""
from .sexp import field, field_opt, Atom
from .gallina import gexpr, glist, app, gnum

HANDLER = "C13"
REQUIRES = ["Simplify", "SimplifyCache"]
FUNCTIONS = ["simp_default", "simplify_batch", "simplify_cached", "run", "visit", "get_fixed_point", "lookup", "update"]
COVERS = ("cache-free result of every batch member; per-member results and the FINAL CACHE (all entries, in the model's order) of the "
          "memoising driver model on the recorded order, for the histories whose cache the harness dumped")
QUICK_N = 24
THOROUGH_N = 1200
SHARD = 60
# the memoising model keeps its cache as an association list over trees compared with expr_eqb: seconds per case inside the VM
# for the large histories, so only cases up to this text size are evaluated in the kernel
MAX_CASE_CHARS = {"quick": 5000, "thorough": 20000}

PREAMBLE = r"""
Module K13.
Import KP.
Definition psres (r : sres) : string :=
  match r with SOk e => pexpr e | SPanic => "(panic)" | SFuel => "(outoffuel)" end.
Definition pentry (kv : expr * expr) : string := par [pexpr (fst kv); pexpr (snd kv)].
Definition out (es : list expr) (order : option (list N)) : string :=
  let plain := par (map (fun e => psres (simp_default e)) es) in
  let hist := match order with
              | None => "(nohist)"
              | Some ord =>
                  let members := map (fun i => nth (N.to_nat i) es (BVLiteral 0 0)) ord in
                  let cr := simplify_batch (N.to_nat 100000) [] members in
                  par ["hist"; par (map psres (snd cr)); par (map pentry (fst cr))]
              end in
  par ["c13"; plain; hist].
End K13.
"""


def excuse(kernel_txt, extracted_txt):
    return "(outoffuel)" in kernel_txt and "(outoffuel)" not in extracted_txt


def term(fs):
    es = glist([gexpr(e) for e in field("exprs", fs)])
    cs = field_opt("cache-sparse", fs)
    if cs is None or (len(cs) == 1 and isinstance(cs[0], Atom) and cs[0] == "skipped"):
        order = "None"
    else:
        order = "(Some %s)" % glist([gnum(i) for i in field("order", fs)])
    return app("K13.out", es, order)
