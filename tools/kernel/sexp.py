"""S-expression reader for the pipe format (HACKING.md), written independently of ocaml/driver/sexp.ml.
Atoms -> Atom(str); "strings" -> Str(str) (one python character per BYTE: files are read as latin-1);
lists -> python lists."""


class Atom(str):
    __slots__ = ()


class Str(str):
    __slots__ = ()


class SexpError(Exception):
    pass


_WS = " \t\n\r"
_SIMPLE_ESC = {"n": "\n", "t": "\t", "r": "\r"}


def parse(s):
    n = len(s)
    stack = [[]]
    i = 0
    while i < n:
        c = s[i]
        if c in _WS:
            i += 1
        elif c == "(":
            stack.append([])
            i += 1
        elif c == ")":
            if len(stack) < 2:
                raise SexpError("unexpected )")
            top = stack.pop()
            stack[-1].append(top)
            i += 1
        elif c == '"':
            i += 1
            buf = []
            while True:
                if i >= n:
                    raise SexpError("unclosed string")
                c = s[i]
                i += 1
                if c == '"':
                    break
                if c == "\\":
                    if i >= n:
                        raise SexpError("bad escape")
                    e = s[i]
                    i += 1
                    if e == "x":
                        buf.append(chr(int(s[i:i + 2], 16)))
                        i += 2
                    else:
                        buf.append(_SIMPLE_ESC.get(e, e))
                else:
                    buf.append(c)
            stack[-1].append(Str("".join(buf)))
        else:
            j = i
            while j < n and s[j] not in ' \t\n\r()"':
                j += 1
            stack[-1].append(Atom(s[i:j]))
            i = j
    if len(stack) != 1 or len(stack[0]) != 1:
        raise SexpError("expected exactly one S-expression")
    return stack[0][0]


def is_list(x):
    return isinstance(x, list)


def head(x):
    return x[0] if is_list(x) and x and isinstance(x[0], Atom) else None


def field(name, fields, default=None):
    """items after the key of the first (name ...) in fields"""
    for f in fields:
        if is_list(f) and f and isinstance(f[0], Atom) and f[0] == name:
            return f[1:]
    if default is not None:
        return default
    raise SexpError("missing field " + name)


def field_opt(name, fields):
    for f in fields:
        if is_list(f) and f and isinstance(f[0], Atom) and f[0] == name:
            return f[1:]
    return None


def field1(name, fields):
    v = field(name, fields)
    if len(v) != 1:
        raise SexpError("field arity " + name)
    return v[0]


def case_fields(x):
    if not (is_list(x) and len(x) >= 2 and x[0] == "case"):
        raise SexpError("expected (case ID ...)")
    return str(x[1]), x[2:]


def read_cases(path):
    """[(line_text, id)] of the case lines of a .cases file (comment lines skipped)"""
    out = []
    with open(path, encoding="latin-1") as f:
        for line in f:
            line = line.rstrip("\n")
            if not line or line[0] == ";":
                continue
            out.append(line)
    return out
