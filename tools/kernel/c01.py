"""C01 (simplifier): kernel evaluation of the fixed-point driver model on the case's expression.
model column = (c01 <simp_default e as a tree | (panic) | (outoffuel)> <wt e> <type_of e> <value of e> <value of the result>),
values under the valuation "every bit-vector symbol all ones, array cell i = i mod 2^dw" (bit-vector inputs only)."""
from .sexp import field1
from .gallina import gexpr, app

HANDLER = "C01"
REQUIRES = ["Simplify"]
FUNCTIONS = ["simp_default", "simp", "simplify", "rebuild", "wt", "type_of", "ebv", "earr"]
COVERS = ("the model's simplified tree (simp_default: every rule arm the sampled inputs reach, the fixed-point driver), wt and type_of of the "
          "input, ebv of input and result under one fixed valuation")
QUICK_N = 200
THOROUGH_N = 5000

PREAMBLE = r"""
Module K01.
Import KP.
Definition psres (r : sres) : string :=
  match r with SOk e => pexpr e | SPanic => "(panic)" | SFuel => "(outoffuel)" end.
Definition rho1 : env :=
  {| rho_bv := fun _ w => N.ones w; rho_arr := fun _ _ dw => fun i => N.modulo i (N.pow 2 dw) |}.
Definition v (x : expr) : string :=
  match type_of x with TBV w => bval w (ebv rho1 x) | TArr _ _ => "array" end.
Definition out (e : expr) : string :=
  let m := simp_default e in
  par ["c01"; psres m; pbool (wt e); pty (type_of e); v e; match m with SOk r => v r | _ => "none" end].
End K01.
"""


def term(fs):
    return app("K01.out", gexpr(field1("expr", fs)))
