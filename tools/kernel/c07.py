"""C07 (simulator): kernel evaluation of the interpreter model (Model/Sim.v exec) and of the reference semantics of histories
(Spec/SimSpec.v spec_exec) over the whole operation history of the case.
model column = (c07 <sim_ok> (<model observation per operation>) (<specification observation per operation, - outside the domain>))."""
from .sexp import field, is_list, Atom, SexpError
from .gallina import gsys, gexpr, gnum, glist, app, gpair

HANDLER = "C07"
REQUIRES = ["Sim"]
FUNCTIONS = ["exec", "spec_exec", "sim_ok", "op_ok", "init_seq", "next_env", "eval"]
COVERS = ("every observation of the interpreter model and of the specification along the case's history (init zero/random with the recorded "
          "generator values, set, step, get, count, snapshot, restore); sim_ok / op_ok domain tests")
QUICK_N = 150
THOROUGH_N = 3000

PREAMBLE = r"""
Module K07.
Import KP.
Definition show_bv (w v : N) : string := par ["bv"; dec w; bval w v].
Definition show_arr (iw dw : N) (f : N -> N) : string :=
  "(arr " +++ dec iw +++ " " +++ dec dw
  +++ concat_pre (map (fun i => bval dw (f (N.of_nat i))) (seq 0 (N.to_nat (N.pow 2 iw)))) +++ ")".
Definition show_obs (o : obs) : string :=
  match o with
  | ONone => "(ok)"
  | OVal (SBV w v) => show_bv w v
  | OVal (SArr iw dw f) => show_arr iw dw f
  | ONum n => par ["num"; dec n]
  end.
Definition show_sobs (o : sobs) : string :=
  match o with
  | SNone => "(ok)"
  | SVal (VBV w v) => show_bv w v
  | SVal (VArr iw dw f) => show_arr iw dw f
  | SNum n => par ["num"; dec n]
  end.
Fixpoint mrun (sy : sys) (s : option sim) (ops : list op) : list string :=
  match ops with
  | [] => []
  | o :: r =>
      match s with
      | None => "-" :: mrun sy None r
      | Some st =>
          match exec sy st o with
          | Done x => show_obs (snd x) :: mrun sy (Some (fst x)) r
          | Crash => "(panic)" :: mrun sy None r
          | Unmodelled => "(unmodelled)" :: mrun sy None r
          end
      end
  end.
Fixpoint srun (sy : sys) (dom first : bool) (ns : nat) (ss : sstate) (ops : list op) : list string :=
  match ops with
  | [] => []
  | o :: r =>
      let dom' := if first then dom else andb dom (op_ok sy ns o) in
      let ns' := match o with OSnapshot => S ns | _ => ns end in
      if dom' then
        let x := spec_exec sy ss o in
        show_sobs (snd x) :: srun sy dom' false ns' (fst x) r
      else "-" :: srun sy dom' false ns' ss r
  end.
(* generated initial values: position -> (bit-vector value, array contents) *)
Definition oracle_of (tbl : list (N * list N)) : nat -> oval :=
  fun pos => match nth_error tbl pos with
             | Some (v, cells) => (v, fun i => nth (N.to_nat i) cells 0%N)
             | None => (0%N, fun _ => 0%N)
             end.
Definition out (sy : sys) (ops : list op) : string :=
  let ok := sim_ok sy in
  let dom := andb ok (match ops with OInit _ :: _ => true | _ => false end) in
  par ["c07"; pbool ok; par (mrun sy (Some sim0) ops); par (srun sy dom true 0 sstate0 ops)].
End K07.
"""


def _op(x):
    if not (is_list(x) and x and isinstance(x[0], Atom)):
        raise SexpError("bad op")
    t = str(x[0])
    if t == "init" and len(x) >= 2 and x[1] == "zero":
        return "(OInit KZero)"
    if t == "init" and len(x) >= 3 and x[1] == "random":
        tbl = []
        for v in field("oracle", x[3:]):
            if is_list(v) and v and v[0] == "arr":
                tbl.append(gpair("0", glist([gnum(c) for c in v[3:]])))
            else:
                tbl.append(gpair(gnum(v), "[]"))
        return "(OInit (KRandom (K07.oracle_of %s)))" % glist(tbl)
    if t == "set" and len(x) == 4:
        bits = str(x[2])
        return app("OSet", gexpr(x[1]), str(len(bits) - 1), gnum(x[2]))
    if t == "step" and len(x) == 2:
        return "OStep"
    if t == "get" and len(x) == 3:
        return app("OGet", gexpr(x[1]))
    if t == "count" and len(x) == 2:
        return "OCount"
    if t == "snapshot" and len(x) == 2:
        return "OSnapshot"
    if t == "restore" and len(x) == 4:
        return app("ORestore", gnum(x[1]))
    raise SexpError("bad op " + t)


def term(fs):
    sy = None
    for f in fs:
        if is_list(f) and f and f[0] == "sys":
            sy = f
            break
    if sy is None:
        raise SexpError("no (sys ..) field")
    return app("K07.out", gsys(sy), glist([_op(o) for o in field("ops", fs)]))
