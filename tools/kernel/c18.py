"""C18 (btor2 reader, robustness): kernel evaluation of parse_text_raw_v on the case's text.
model column = (c18 ok <number of renamings> <demoted raw system as a tree | (big)>) | (c18 err) | (c18 panic(<kind>)).
The reader variant (Cur / Fix / Fix2) is the constant `code_variant` of ocaml/driver/c08.ml, read from that file."""
import os, re
from .sexp import field1
from .gallina import gstr, app, PSYS

HANDLER = "C18"
REQUIRES = ["Btor2Parse"]
FUNCTIONS = ["parse_text_raw_v", "parse_raw_v", "tokenize", "split_lines", "demote", "all_exprs", "children"]
COVERS = ("the reader model on the case text: accept / error / panic class with its kind; for accepted texts the number of renamings and "
          "the demoted raw system (exact trees, when the expanded trees have at most 4000 nodes)")
QUICK_N = 120
THOROUGH_N = 3000
MAX_CASE_CHARS = {"quick": 6000, "thorough": 40000}


def code_variant():
    src = open(os.path.join(os.path.dirname(os.path.abspath(__file__)), "..", "..", "ocaml", "driver", "c08.ml")).read()
    m = re.search(r"^let code_variant = (Cur|Fix2|Fix)\b", src, re.M)
    if not m:
        raise RuntimeError("code_variant not found in ocaml/driver/c08.ml")
    return m.group(1)


PREAMBLE = r"""
Module K18.
Import KP.
""" + PSYS + r"""
Definition kind_name (k : pkind) : string :=
  match k with
  | PWrongKind => "wrong-kind" | PSliceOrder => "slice-order" | PConstNoValue => "const-no-value"
  | PWidthMismatch => "width-mismatch" | PZeroWidth => "zero-width" | POverflow => "u32-overflow"
  | PLitWide => "wide-literal" | PUnsupported => "unsupported"
  end.
Definition out (v : code_variant) (dbg : bool) (text : string) : string :=
  match parse_text_raw_v v dbg text with
  | POk (raw, ren) => par ["c18"; "ok"; decnat (List.length ren); psys_bounded 4000 (demote raw)]
  | PErr => "(c18 err)"
  | PPanic k => "(c18 panic(" +++ kind_name k +++ "))"
  end.
End K18.
"""


def term(fs):
    dbg = "true" if str(field1("profile", fs)) == "debug" else "false"
    return app("K18.out", code_variant(), dbg, gstr(field1("text", fs)))
