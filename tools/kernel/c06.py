"""C06 (concrete evaluation): kernel evaluation of the machine model and of the specification with cut-offs.

Driver side (ocaml/driver/c06.ml): model column = (c06 <machine> <spec>) where machine is the text of
Model.eval_impl prov e and spec the text of Model.cbv/carr prov rho e (or (illtyped) when Model.wt e = false).
Here: the same two values computed by vm_compute from the Gallina definitions, with the value provider and the
environment rebuilt from the case text by the Gallina code below (NOT by conv.ml's mk_env / c06.ml's closures)."""
from .sexp import field, field_opt, field1, is_list, Atom, SexpError
from .gallina import gexpr, gnum, gstr, glist, gpair, app

HANDLER = "C06"
REQUIRES = ["EvalImpl"]
FUNCTIONS = ["eval_impl", "cbv", "carr", "wt", "type_of", "expr_eqb"]
COVERS = ("machine result (eval_impl) and specification value with cut-offs (cbv/carr, wt) of every sampled case, "
          "arrays at the case's index list; the provider/environment are rebuilt in Gallina from the case text")
QUICK_N = 240
THOROUGH_N = 6000

PREAMBLE = r"""
Module K06.
Import KP.
Record arrent : Type := { an : string; aiw : N; adw : N; adef : N; aes : list (N * N) }.
Record acut : Type := { ce : expr; ciw : N; cdw : N; cdef : N; ces : list (N * N) }.
Definition find_bv (bvs : list (string * N * N)) (nm : string) (w : N) : option N :=
  match find (fun t => match t with (n', w', _) => andb (String.eqb n' nm) (N.eqb w' w) end) bvs with
  | Some (_, _, v) => Some v
  | None => None
  end.
Definition find_arr (arrs : list arrent) (nm : string) (iw dw : N) : option arrent :=
  find (fun a => andb (String.eqb (an a) nm) (andb (N.eqb (aiw a) iw) (N.eqb (adw a) dw))) arrs.
Definition mk_env (bvs : list (string * N * N)) (arrs : list arrent) : env :=
  {| rho_bv := fun nm w => match find_bv bvs nm w with Some v => v | None => 0%N end;
     rho_arr := fun nm iw dw => match find_arr arrs nm iw dw with
                                | Some a => last_wins (adef a) (aes a)
                                | None => fun _ => 0%N
                                end |}.
Definition mk_prov (bvs : list (string * N * N)) (arrs : list arrent) (cuts : list (expr * N)) (acuts : list acut) : provider :=
  {| get_bv := fun ex =>
       match find (fun c => expr_eqb (fst c) ex) cuts with
       | Some c => match type_of (fst c) with TBV w => Some (w, snd c) | TArr _ _ => None end
       | None => match ex with
                 | BVSymbol nm w => match find_bv bvs nm w with Some v => Some (w, v) | None => None end
                 | _ => None
                 end
       end;
     get_array := fun ex =>
       match find (fun c => expr_eqb (ce c) ex) acuts with
       | Some c => Some (ciw c, cdw c, last_wins (cdef c) (ces c))
       | None => match ex with
                 | ArraySymbol nm iw dw => match find_arr arrs nm iw dw with
                                           | Some a => Some (iw, dw, last_wins (adef a) (aes a))
                                           | None => None
                                           end
                 | _ => None
                 end
       end |}.
Definition fmt_bv (w v : N) : string := par ["bv"; dec w; bval w v].
Definition show_arr (idx : list N) (iw dw : N) (f : N -> N) : string :=
  "(arr " +++ dec iw +++ " " +++ dec dw +++ concat_pre (map (fun i => bval dw (f i)) idx) +++ ")".
Definition out (e : expr) (bvs : list (string * N * N)) (arrs : list arrent) (cuts : list (expr * N)) (acuts : list acut)
               (idx : list N) : string :=
  let p := mk_prov bvs arrs cuts acuts in
  let rho := mk_env bvs arrs in
  let machine := match eval_impl p e with
                 | RBV w v => fmt_bv w v
                 | RArr iw dw f => show_arr idx iw dw f
                 | RPanic => "(panic)"
                 | RBadStacks => "(badstacks)"
                 | ROutOfFuel => "(outoffuel)"
                 end in
  let spec := if wt e then
                match type_of e with
                | TBV w => fmt_bv w (cbv p rho e)
                | TArr iw dw => show_arr idx iw dw (carr p rho e)
                end
              else "(illtyped)" in
  par ["c06"; machine; spec].
End K06.
"""


def _entries(es):
    out = []
    for x in es:
        if not (is_list(x) and len(x) == 2):
            raise SexpError("bad array entry")
        out.append(gpair(gnum(x[0]), gnum(x[1])))
    return glist(out)


def _strip_kind(rest):
    if rest and isinstance(rest[0], Atom) and rest[0] in ("dense", "sparse"):
        return rest[1:]
    return rest


def term(fs):
    e = gexpr(field1("expr", fs))
    bvs = []
    for x in field("bvenv", fs):
        if not (is_list(x) and len(x) == 3):
            raise SexpError("bad bvenv entry")
        bvs.append(gpair(gstr(x[0]), gnum(x[1]), gnum(x[2])))
    arrs = []
    for x in field("arrenv", fs):
        if not (is_list(x) and len(x) >= 4):
            raise SexpError("bad arrenv entry")
        rest = _strip_kind(x[3:])
        arrs.append("{| K06.an := %s; K06.aiw := %s; K06.adw := %s; K06.adef := %s; K06.aes := %s |}"
                    % (gstr(x[0]), gnum(x[1]), gnum(x[2]), gnum(rest[0]), _entries(rest[1:])))
    cuts = []
    for x in field_opt("cut", fs) or []:
        if not (is_list(x) and len(x) == 2):
            raise SexpError("cut")
        cuts.append(gpair(gexpr(x[0]), gnum(x[1])))
    acuts = []
    for x in field_opt("acut", fs) or []:
        if not (is_list(x) and len(x) >= 5 and x[3] in ("dense", "sparse")):
            raise SexpError("bad acut")
        acuts.append("{| K06.ce := %s; K06.ciw := %s; K06.cdw := %s; K06.cdef := %s; K06.ces := %s |}"
                     % (gexpr(x[0]), gnum(x[1]), gnum(x[2]), gnum(x[4]), _entries(x[5:])))
    idx = [gnum(i) for i in field_opt("indices", fs) or []]
    return app("K06.out", e, glist(bvs), glist(arrs), glist(cuts), glist(acuts), glist(idx))
