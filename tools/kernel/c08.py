"""C08 (btor2 reader against the reference btor2 semantics): kernel evaluation of the reference interpreter sem_text (all-zero
valuation) and of the reader model parse_text_raw_v on the case's text.
model column = (c08 <well-formed | error class of the reference interpreter> <(ok n system|(big)) | err | panic>)."""
from .sexp import field1
from .gallina import gstr, app, PSYS
from .c18 import code_variant

HANDLER = "C08"
REQUIRES = ["Btor2Parse", "Btor2Sem"]
FUNCTIONS = ["sem_text", "sem_line", "parse_text_raw_v", "tokenize", "split_lines", "demote"]
COVERS = ("verdict of the reference interpreter on the text (well-formed or its error class) and the reader model's class; for accepted "
          "texts the demoted raw system (exact trees up to 4000 nodes).  Texts the handler skips (huge widths, array equality over large "
          "index sorts) are not evaluated")
QUICK_N = 120
THOROUGH_N = 3000
MAX_CASE_CHARS = {"quick": 6000, "thorough": 40000}

PREAMBLE = r"""
Module K08.
Import KP.
""" + PSYS + r"""
Definition zero_val : b2val :=
  {| in_bv := fun _ => 0%N; in_arr := fun _ _ => 0%N; st_bv := fun _ => 0%N; st_arr := fun _ _ => 0%N |}.
Definition sem_err_name (e : b2err) : string :=
  match e with
  | B2IllSorted => "ill-sorted" | B2ZeroWidth => "zero-width" | B2ExtArray => "ext-of-array" | B2PropWidth => "prop-width"
  | B2Unsupported => "unsupported" | B2Syntax => "syntax"
  end.
Definition out (v : code_variant) (dbg : bool) (text : string) : string :=
  par ["c08";
       match sem_text zero_val text with B2Ok _ => "well-formed" | B2Err e => sem_err_name e end;
       match parse_text_raw_v v dbg text with
       | POk (raw, ren) => par ["ok"; decnat (List.length ren); psys_bounded 4000 (demote raw)]
       | PErr => "err"
       | PPanic _ => "panic"
       end].
End K08.
"""


def term(fs):
    dbg = "true" if str(field1("profile", fs)) == "debug" else "false"
    return app("K08.out", code_variant(), dbg, gstr(field1("text", fs)))
