"""C17 (cone of influence): kernel evaluation of coi_opt for every root of the case under the three variants, and of
states_distinct_b.  model column = (c17 <states_distinct_b> (<full> <init> <comb>) ...), a cone = (SYM ..) in the model's order."""
from .sexp import field, is_list, Atom, SexpError
from .gallina import gsys, gexpr, glist, app

HANDLER = "C17"
REQUIRES = ["Coi"]
FUNCTIONS = ["coi_opt", "coi_loop", "succs", "states_distinct_b"]
COVERS = "the model cone (ordered list) of every root x {full, init, comb}; states_distinct_b of the system"
QUICK_N = 150
THOROUGH_N = 3000

PREAMBLE = r"""
Module K17.
Import KP.
Definition cone (sy : sys) (root : expr) (v : variant) : string :=
  match coi_opt v sy root with
  | None => "none"
  | Some l => par (map pexpr l)
  end.
Definition out (sy : sys) (roots : list expr) : string :=
  "(c17 " +++ pbool (states_distinct_b sy)
  +++ concat_pre (map (fun r => par (map (cone sy r) [VFull; VInit; VComb])) roots) +++ ")".
End K17.
"""


def term(fs):
    sy = gsys([Atom("sys")] + list(field("sys", fs)))
    roots = []
    for r in field("roots", fs):
        if not (is_list(r) and len(r) >= 2 and r[0] == "r"):
            raise SexpError("root")
        roots.append(gexpr(r[1]))
    return app("K17.out", sy, glist(roots))
