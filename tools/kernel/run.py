"""The kernel cross-check step of ./check (DESIGN.md section 2; NOTES-kernel.md).

For every driver handler of the run that has a module tools/kernel/<handler>.py:
  1. sample cases from the case files the tie step just produced (corpus first, then evenly spaced),
  2. run the driver on the sample with VERIF_EMIT_MODEL=1: 5th column = canonical text of the EXTRACTED model's output,
  3. translate the same cases to Gallina (tools/cases_to_v.py), `coqc` them in shards under `timeout`
     (Eval vm_compute ... printed through coq/theories/Model/KernelPrint.v),
  4. compare case by case.  A difference on a case whose oracle verdict is not `fail` is a break of the
     correspondence corr_<prop>_kernel (reported by ./check like a `diff`)."""
import os, re, subprocess, sys, time, json, concurrent.futures

HERE = os.path.dirname(os.path.abspath(__file__))
sys.path.insert(0, os.path.dirname(HERE))
import kernel
from kernel import sexp
import cases_to_v

SHARD = 300           # cases per coqc process (a module may set its own SHARD)
JOBS = 4              # concurrent coqc processes
EVAL_RE = re.compile(r'=\s*"((?:[^"]|"")*)"(?:%string)?\s*:\s*string', re.S)


class KernelInfra(Exception):
    pass


def _clean(out):
    return "\n".join(l for l in out.splitlines() if "WARNING conda" not in l)


def pick_indices(n_total, n_want):
    if n_want >= n_total:
        return list(range(n_total))
    return sorted(set(int(j * n_total / n_want) for j in range(n_want)))


def sample(runs, n_want, corpus_share):
    """runs: [(tag, case_file, results)].  Returns [(case_file, index, result)] - corpus streams first (all of them up to
    corpus_share * n_want), the remaining quota spread evenly over the other streams in proportion to their size."""
    corpus = [r for r in runs if r[0].startswith("corpus") or r[0] == "replay"]
    others = [r for r in runs if r not in corpus]
    chosen = []
    n_corpus = sum(len(r[2]) for r in corpus)
    quota = min(n_corpus, max(int(n_want * corpus_share), 0)) if others else min(n_corpus, n_want)
    for tag, cf, res in corpus:
        share = int(round(quota * len(res) / n_corpus)) if n_corpus else 0
        for i in pick_indices(len(res), share):
            chosen.append((cf, i, res[i]))
    rest = max(n_want - len(chosen), 0)
    n_other = sum(len(r[2]) for r in others)
    for tag, cf, res in others:
        share = int(round(rest * len(res) / n_other)) if n_other else 0
        for i in pick_indices(len(res), share):
            chosen.append((cf, i, res[i]))
    return chosen


def fetch_lines(chosen):
    """case text of the chosen (file, index) pairs (index counts case lines, as the driver does)"""
    by_file = {}
    for k, (cf, i, _) in enumerate(chosen):
        by_file.setdefault(cf, {})[i] = k
    lines = [None] * len(chosen)
    for cf, want in by_file.items():
        left = len(want)
        idx = -1
        with open(cf, encoding="latin-1") as f:
            for line in f:
                if not line.strip() or line[0] == ";":
                    continue
                idx += 1
                if idx in want:
                    lines[want[idx]] = line.rstrip("\n")
                    left -= 1
                    if left == 0:
                        break
    return lines


def _big_stack():
    # long result strings are deep right-nested terms: reading them back / printing them is recursive in coqc
    import resource
    soft, hard = resource.getrlimit(resource.RLIMIT_STACK)
    try:
        resource.setrlimit(resource.RLIMIT_STACK, (hard, hard))
    except (ValueError, OSError):
        pass


def run_coqc(V, vfile, timeout_s):
    flags = ["-Q", os.path.join(V, "coq/theories/Spec"), "Patronus", "-Q", os.path.join(V, "coq/theories/Model"), "Patronus"]
    cmd = ["timeout", str(timeout_s), "coqc", "-w", "-notation-overridden,-deprecated-syntactic-definition,-abstract-large-number"] + flags + [vfile]
    p = subprocess.run(cmd, cwd=os.path.dirname(vfile), stdout=subprocess.PIPE, stderr=subprocess.STDOUT, text=True, encoding="latin-1",
                       preexec_fn=_big_stack)
    return p.returncode, _clean(p.stdout)


def crosscheck_handler(V, prop, handler, tier, runs, env):
    mod = kernel.module_for(handler)
    t0 = time.time()
    out = dict(handler=handler, functions=list(mod.FUNCTIONS), covers=mod.COVERS)
    n_want = int(os.environ.get("VERIF_KERNEL_N", "0") or 0) or (mod.QUICK_N if tier == "quick" else mod.THOROUGH_N)
    # skip / error lines have no model output
    usable = [(tag, cf, [r for r in res]) for tag, cf, res in runs]
    cap = getattr(mod, "MAX_CASE_CHARS", {}).get(tier)
    # a module with a size cap gets more candidates, of which the first n_want that fit are kept
    chosen = sample(usable, n_want * (5 if cap else 1), 0.25 if tier == "quick" else 1.0)
    chosen = [c for c in chosen if c[2]["status"] in ("ok", "diff", "fail", "skip")]
    kdir = os.path.join(V, ".build", "kernel", prop)
    os.makedirs(kdir, exist_ok=True)
    for f in os.listdir(kdir):
        if f.startswith("Cases_%s_" % handler) or f.startswith(".Cases_%s_" % handler):
            os.unlink(os.path.join(kdir, f))
    lines = fetch_lines(chosen)
    if any(l is None for l in lines):
        raise KernelInfra("case file shorter than its result file")
    too_long = 0
    if cap:
        fit = [k for k, l in enumerate(lines) if len(l) <= cap]
        too_long = len(lines) - len(fit)
        if len(fit) > n_want:        # keep them evenly spread
            fit = [fit[i] for i in pick_indices(len(fit), n_want)]
        chosen, lines = [chosen[k] for k in fit], [lines[k] for k in fit]
    sample_file = os.path.join(kdir, "sample_%s.cases" % handler)
    with open(sample_file, "w", encoding="latin-1") as f:
        for l in lines:
            f.write(l + "\n")
    # 2. the extracted model's text
    with open(sample_file, "rb") as fin:
        p = subprocess.run([os.environ.get("VERIF_KERNEL_DRIVER") or os.path.join(V, ".build", "ocaml", "driver"), handler], stdin=fin, stdout=subprocess.PIPE, stderr=subprocess.PIPE,
                           env=dict(env, VERIF_EMIT_MODEL="1"), timeout=3000)
    if p.returncode != 0:
        raise KernelInfra("driver (VERIF_EMIT_MODEL=1) failed: " + p.stderr.decode("latin-1")[-2000:])
    rows = p.stdout.decode("latin-1").splitlines()
    if len(rows) != len(lines):
        raise KernelInfra("driver printed %d lines for %d cases" % (len(rows), len(lines)))
    extracted = []
    for r in rows:
        parts = r.split("\t")
        extracted.append(parts[4] if len(parts) >= 5 else "-")
    # 3. the kernel's text
    shards = []
    skipped = {}
    jobs = int(os.environ.get("VERIF_KERNEL_JOBS", "0") or 0) or JOBS
    shard_n = min(getattr(mod, "SHARD", SHARD), max(25, -(-len(lines) // jobs)))
    # cases for which the handler printed no model text (skipped by the handler's own resource guards) are not evaluated
    active = [k for k in range(len(lines)) if extracted[k] != "-"]
    for s0 in range(0, len(active), shard_n):
        vfile = os.path.join(kdir, "Cases_%s_%d.v" % (handler, s0 // shard_n))
        part = active[s0:s0 + shard_n]
        done, sk = cases_to_v.translate(handler, [lines[k] for k in part], vfile, positions=part,
                                        max_chars=getattr(mod, "MAX_CASE_CHARS", {}).get(tier))
        skipped.update(sk)
        if done:
            shards.append((vfile, done))
    per_shard_timeout = 600 if tier == "quick" else 3000
    kernel_txt = {}
    with concurrent.futures.ThreadPoolExecutor(max_workers=jobs) as ex:
        futs = {ex.submit(run_coqc, V, vf, per_shard_timeout): (vf, done) for vf, done in shards}
        for fut in concurrent.futures.as_completed(futs):
            vf, done = futs[fut]
            rc, text = fut.result()
            open(vf[:-2] + ".out", "w", encoding="latin-1").write(text)
            if rc != 0:
                raise KernelInfra("coqc %s: exit %d (124 = timeout)\n%s" % (os.path.relpath(vf, V), rc, text[-1500:]))
            got = [m.group(1).replace('""', '"') for m in EVAL_RE.finditer(text)]
            if len(got) != len(done):
                raise KernelInfra("coqc %s printed %d values for %d cases" % (os.path.relpath(vf, V), len(got), len(done)))
            for g in got:
                m = re.match(r"k(\d+) (.*)\Z", g, re.S)
                if not m:
                    raise KernelInfra("unexpected value printed by coqc: %r" % g[:200])
                kernel_txt[int(m.group(1))] = m.group(2)
    # 4. compare
    agree, diverge, excused, noout = 0, [], 0, 0
    for k, (cf, i, res) in enumerate(chosen):
        if extracted[k] == "-" or k in skipped:
            noout += 1
            continue
        if k not in kernel_txt:
            raise KernelInfra("no kernel value for sampled case %d" % k)
        if kernel_txt[k] == extracted[k]:
            agree += 1
        elif hasattr(mod, "excuse") and mod.excuse(kernel_txt[k], extracted[k]):
            noout += 1       # declared not comparable by the module (e.g. the kernel ran with less fuel and ran out)
        elif res["status"] == "fail":
            excused += 1     # the case is reported through the property oracle anyway
        else:
            diverge.append(dict(id=res["id"], status="diff", key="corr_%s_kernel" % prop, case_file=cf, stream="kernel",
                                detail="kernel (vm_compute) and extracted model disagree: kernel=%s extracted=%s" % (kernel_txt[k][:1500], extracted[k][:1500])))
    out.update(cases=len(chosen) - noout, agree=agree, diverge=len(diverge), diverge_on_oracle_failures=excused,
               no_model_output=noout, not_translated=len(skipped), shards=len(shards), wall_s=round(time.time() - t0, 1),
               sample_file=os.path.relpath(sample_file, V))
    if cap:
        out["size_cap_chars"] = cap
        out["candidates_over_the_cap"] = too_long
    if skipped:
        out["not_translated_example"] = sorted(skipped.items())[0][1]
    return out, diverge


def crosscheck(V, prop, tier, runs_by_handler, env):
    """runs_by_handler: {handler: [(tag, case_file, results)]}.  Returns (evidence object, list of diff-like results)."""
    if os.environ.get("VERIF_KERNEL", "1") == "0":
        return dict(status="switched off (VERIF_KERNEL=0)"), []
    t0 = time.time()
    mods = {h: kernel.module_for(h) for h in runs_by_handler}
    if not any(mods.values()):
        return dict(status="not available", note="no tools/kernel/<handler>.py for handler(s) %s" % ", ".join(sorted(mods))), []
    # the printers and the model modules must be compiled (through the Makefile, like everything under coq/theories)
    targets = set(["theories/Model/KernelPrint.vo"])
    import glob
    for m in mods.values():
        for r in (m.REQUIRES if m else []):
            hits = glob.glob(os.path.join(V, "coq/theories/*/%s.v" % r))
            if not hits:
                raise KernelInfra("no Coq file for module %s" % r)
            targets.add(os.path.relpath(hits[0], os.path.join(V, "coq"))[:-2] + ".vo")
    p = subprocess.run("python3 %s >/dev/null 2>&1; timeout 3000 make -j8 %s" % (os.path.join(V, "tools", "gen_coqproject.py"), " ".join(sorted(targets))),
                       shell=True, cwd=os.path.join(V, "coq"), env=env, stdout=subprocess.PIPE, stderr=subprocess.STDOUT, text=True)
    if p.returncode != 0:
        raise KernelInfra("make %s failed:\n%s" % (" ".join(sorted(targets)), _clean(p.stdout)[-2000:]))
    parts, diffs = [], []
    for h in sorted(runs_by_handler):
        if mods[h] is None:
            parts.append(dict(handler=h, status="not available"))
            continue
        o, d = crosscheck_handler(V, prop, h, tier, runs_by_handler[h], env)
        parts.append(o)
        diffs += d
    ev = dict(status="run", name="corr_%s_kernel" % prop,
              cases=sum(p.get("cases", 0) for p in parts), agree=sum(p.get("agree", 0) for p in parts),
              diverge=sum(p.get("diverge", 0) for p in parts), wall_s=round(time.time() - t0, 1),
              functions=sorted(set(f for p in parts for f in p.get("functions", []))),
              note=("sampled cases of this run re-evaluated inside Coq (Eval vm_compute over the Gallina model, input terms produced by "
                    "tools/cases_to_v.py, output printed by Model/KernelPrint.v) and compared as text with the extracted OCaml model's "
                    "output on the same cases (driver, VERIF_EMIT_MODEL=1); checks extraction + ocaml/driver glue, not the Rust side"),
              handlers=parts)
    return ev, diffs


def main():
    """python3 tools/kernel/run.py <Cxx> <quick|thorough> : the step alone, on the case/result files the last ./check left
    under .build/run/<Cxx>/ (development aid; ./check calls crosscheck() itself)."""
    import glob, importlib.util
    prop, tier = sys.argv[1], sys.argv[2]
    V = os.path.dirname(os.path.dirname(HERE))
    spec = importlib.util.spec_from_file_location("prop_" + prop, os.path.join(V, "props", prop + ".py"))
    cfg = importlib.util.module_from_spec(spec)
    spec.loader.exec_module(cfg)
    tags = {st["tag"]: st.get("handler", cfg.HANDLER) for st in cfg.streams(tier, 1)}
    runs = {}
    for rf in sorted(glob.glob(os.path.join(V, ".build", "run", prop, "*.results"))):
        tag = os.path.basename(rf)[:-8]
        if not (tag in tags or tag.startswith("corpus")):
            continue
        results = []
        for line in open(rf, encoding="latin-1"):
            parts = line.rstrip("\n").split("\t")
            while len(parts) < 4:
                parts.append("")
            results.append(dict(id=parts[0], status=parts[1], key=parts[2], detail=parts[3]))
        runs.setdefault(tags.get(tag, cfg.HANDLER), []).append((tag, rf[:-8] + ".cases", results))
    env = dict(os.environ)
    try:
        ev, diffs = crosscheck(V, prop, tier, runs, env)
    except KernelInfra as e:
        print("INFRA: %s" % e)
        sys.exit(2)
    print(json.dumps(ev, indent=1))
    for d in diffs[:5]:
        print("DIFF", d["id"], d["key"], d["detail"][:600])
    sys.exit(1 if diffs else 0)


if __name__ == "__main__":
    main()
