"""Kernel cross-check (DESIGN.md section 2, NOTES-kernel.md): one module per driver handler, found by name.
A module provides: HANDLER, REQUIRES (Patronus modules to import), FUNCTIONS (model functions evaluated), COVERS (text),
QUICK_N / THOROUGH_N (sample sizes), PREAMBLE (Gallina text: per-property printers and glue), term(fields) -> Gallina
term of type string for one case."""
import importlib, os


def module_for(handler):
    name = handler.lower()
    if not os.path.exists(os.path.join(os.path.dirname(os.path.abspath(__file__)), name + ".py")):
        return None
    return importlib.import_module("kernel." + name)
