"""Gallina term builders (python -> Coq concrete syntax).  Everything is emitted for a file in which
N_scope and then string_scope are open; numerals are N literals, never nat."""
from .sexp import Atom, Str, SexpError, is_list


class Untranslatable(Exception):
    """the case uses something the translator does not handle: counted, not an error"""


def _safe(c):
    return 32 <= ord(c) <= 126 or c in "\n\t"


def gstr(s):
    """Coq string term for a python str whose characters are bytes (latin-1).  Printable ASCII, newline and tab go into
    string literals; any other byte is an explicit `String "ddd"%char` cell between literals (nesting depth = number of such bytes)."""
    k = 0
    while k < len(s) and _safe(s[k]):
        k += 1
    lit = '"' + s[:k].replace('"', '""') + '"'
    if k == len(s):
        return lit
    rest = '(String "%03d"%%char %s)' % (ord(s[k]), gstr(s[k + 1:]))
    return rest if k == 0 else "(KP.cat %s %s)" % (lit, rest)


def gnum(tok):
    """value token of the pipe format: b<bits> or a decimal number -> decimal N literal"""
    if isinstance(tok, list):
        raise SexpError("expected a number, got a list")
    s = str(tok)
    if s.startswith("b"):
        body = s[1:]
        if body == "":
            return "0"
        if set(body) - {"0", "1"}:
            raise SexpError("bad bit string " + s)
        return str(int(body, 2))
    if not s.isdigit():
        raise SexpError("bad number " + s)
    return str(int(s))


def gint(tok):
    return int(gnum(tok))


def gbool(b):
    return "true" if b else "false"


def glist(items):
    return "[" + "; ".join(items) + "]"


def gpair(*xs):
    return "(" + ", ".join(xs) + ")"


def gopt(x):
    return "None" if x is None else "(Some %s)" % x


def app(f, *args):
    return "(" + " ".join([f] + list(args)) + ")"


_UN_W = {"not": "BVNot", "neg": "BVNegate"}
_BIN = {"eq": "BVEqual", "implies": "BVImplies", "ugt": "BVGreater", "uge": "BVGreaterEqual", "aeq": "ArrayEqual"}
_BIN_W = {"sgt": "BVGreaterSigned", "sge": "BVGreaterEqualSigned", "concat": "BVConcat", "and": "BVAnd", "or": "BVOr",
          "xor": "BVXor", "shl": "BVShiftLeft", "ashr": "BVArithmeticShiftRight", "lshr": "BVShiftRight", "add": "BVAdd",
          "mul": "BVMul", "sdiv": "BVSignedDiv", "udiv": "BVUnsignedDiv", "smod": "BVSignedMod", "srem": "BVSignedRem",
          "urem": "BVUnsignedRem", "sub": "BVSub"}
_TER = {"ite": "BVIte", "store": "ArrayStore", "aite": "ArrayIte"}


def gexpr(x):
    """pipe-format expression tree -> term of type Patronus.Expr.expr"""
    if not is_list(x) or not x or not isinstance(x[0], Atom):
        raise SexpError("bad expr %r" % (x,))
    t, a = str(x[0]), x[1:]
    n = len(a)
    if t == "sym" and n == 2:
        return app("BVSymbol", gstr(a[0]), gnum(a[1]))
    if t == "lit" and n == 2:
        return app("BVLiteral", gnum(a[0]), gnum(a[1]))
    if t == "zext" and n == 3:
        return app("BVZeroExt", gexpr(a[0]), gnum(a[1]), gnum(a[2]))
    if t == "sext" and n == 3:
        return app("BVSignExt", gexpr(a[0]), gnum(a[1]), gnum(a[2]))
    if t == "slice" and n == 3:
        return app("BVSlice", gexpr(a[0]), gnum(a[1]), gnum(a[2]))
    if t in _UN_W and n == 2:
        return app(_UN_W[t], gexpr(a[0]), gnum(a[1]))
    if t in _BIN and n == 2:
        return app(_BIN[t], gexpr(a[0]), gexpr(a[1]))
    if t in _BIN_W and n == 3:
        return app(_BIN_W[t], gexpr(a[0]), gexpr(a[1]), gnum(a[2]))
    if t == "read" and n == 3:
        return app("BVArrayRead", gexpr(a[0]), gexpr(a[1]), gnum(a[2]))
    if t in _TER and n == 3:
        return app(_TER[t], gexpr(a[0]), gexpr(a[1]), gexpr(a[2]))
    if t == "asym" and n == 3:
        return app("ArraySymbol", gstr(a[0]), gnum(a[1]), gnum(a[2]))
    if t == "aconst" and n == 3:
        return app("ArrayConstant", gexpr(a[0]), gnum(a[1]), gnum(a[2]))
    raise SexpError("bad expr head %s/%d" % (t, n))


def gsys(x):
    """(sys (inputs E..) (states (state SYM (init E)? (next E)?)..) (outputs ("name" E)..) (bads E..) (constraints E..))
    -> term of type Patronus.System.sys (record Build_sys / mk fields by name)"""
    from .sexp import field_opt
    if not (is_list(x) and x and x[0] == "sys"):
        raise SexpError("sys")
    fs = x[1:]

    def exprs(k):
        return glist([gexpr(e) for e in (field_opt(k, fs) or [])])
    states = []
    for s in field_opt("states", fs) or []:
        if not (is_list(s) and len(s) >= 2 and s[0] == "state"):
            raise SexpError("bad state")
        rest = s[2:]

        def opt(k):
            v = field_opt(k, rest)
            return gopt(gexpr(v[0])) if v is not None and len(v) == 1 else "None"
        states.append("{| st_sym := %s; st_init := %s; st_next := %s |}" % (gexpr(s[1]), opt("init"), opt("next")))
    outs = []
    for o in field_opt("outputs", fs) or []:
        if not (is_list(o) and len(o) == 2):
            raise SexpError("bad output")
        outs.append(gpair(gstr(o[0]), gexpr(o[1])))
    return ("{| s_inputs := %s; s_states := %s; s_outputs := %s; s_bads := %s; s_constraints := %s |}"
            % (exprs("inputs"), glist(states), glist(outs), exprs("bads"), exprs("constraints")))


# Gallina printer of systems in the pipe syntax, shared by the modules that print systems (put inside the module's own Module)
PSYS = r"""
Definition pstate (st : state) : string :=
  par (["state"; pexpr (st_sym st)]
       ++ (match st_init st with Some i => [par ["init"; pexpr i]] | None => [] end)
       ++ (match st_next st with Some n => [par ["next"; pexpr n]] | None => [] end))%list.
Definition psys (s : sys) : string :=
  par ["sys";
       par ("inputs" :: map pexpr (s_inputs s));
       par ("states" :: map pstate (s_states s));
       par ("outputs" :: map (fun o => par [quoted (fst o); pexpr (snd o)]) (s_outputs s));
       par ("bads" :: map pexpr (s_bads s));
       par ("constraints" :: map pexpr (s_constraints s))].
(* does the expanded tree fit into [b] nodes?  remaining budget, None = it does not *)
Fixpoint within (fuel : nat) (e : expr) (b : N) : option N :=
  match fuel with
  | O => None
  | S f => if N.eqb b 0 then None
           else fold_left (fun r c => match r with Some x => within f c x | None => None end) (children e) (Some (b - 1)%N)
  end.
Definition psys_bounded (budget : N) (s : sys) : string :=
  match fold_left (fun r c => match r with Some x => within (S (N.to_nat budget)) c x | None => None end) (all_exprs s) (Some budget) with
  | Some _ => psys s
  | None => "(big)"
  end.
"""
