"""C11 (system transformations): kernel evaluation of simplify_sys_default / replace_anonymous_inputs_with_zero on the
case's system; model column = (c11 <result system as a tree | (panic)> <sys_ok of the input>)."""
from .sexp import field1, is_list, SexpError
from .gallina import gsys, app

HANDLER = "C11"
REQUIRES = ["SysTransform"]
FUNCTIONS = ["simplify_sys_default", "simplify_sys", "replace_anonymous_inputs_with_zero", "sys_ok"]
COVERS = "the transformed system (every field, exact trees) and sys_ok of the input system"
QUICK_N = 150
THOROUGH_N = 3000

PREAMBLE = r"""
Module K11.
Import KP.
Definition pstate (st : state) : string :=
  par (["state"; pexpr (st_sym st)]
       ++ (match st_init st with Some i => [par ["init"; pexpr i]] | None => [] end)
       ++ (match st_next st with Some n => [par ["next"; pexpr n]] | None => [] end))%list.
Definition psys (s : sys) : string :=
  par ["sys";
       par ("inputs" :: map pexpr (s_inputs s));
       par ("states" :: map pstate (s_states s));
       par ("outputs" :: map (fun o => par [quoted (fst o); pexpr (snd o)]) (s_outputs s));
       par ("bads" :: map pexpr (s_bads s));
       par ("constraints" :: map pexpr (s_constraints s))].
Definition out (simplify_op : bool) (sy : sys) : string :=
  let m := if simplify_op then simplify_sys_default sy else Some (replace_anonymous_inputs_with_zero sy) in
  par ["c11"; match m with Some r => psys r | None => "(panic)" end; pbool (sys_ok sy)].
End K11.
"""


def term(fs):
    op = str(field1("op", fs))
    sy = None
    for f in fs:
        if is_list(f) and f and f[0] == "sys":
            sy = f
            break
    if sy is None:
        raise SexpError("no (sys ..) field")
    return app("K11.out", "true" if op == "simplify" else "false", gsys(sy))
