#!/bin/sh
# tools/confirm_mutation.sh <Cxx> <mutation-dir (with patch.diff, demo.rs, meta.json)> <scratch-repo-worktree> <seeded-id>
# Confirms a seeded change in a scratch worktree (never /repo): the demo fails with it and passes without it, the existing
# suite still passes with it, and then runs ./check Cxx quick against the mutated copy. Everything is logged under seeded/<id>/.
P=$1; M=$2; R=$3; ID=$4
V=$(cd "$(dirname "$0")/.." && pwd)
S="$V/seeded/$ID"
mkdir -p "$S"
cp "$M/patch.diff" "$S/patch.diff"; cp "$M"/demo* "$S/" 2>/dev/null; cp "$M/meta.json" "$S/agent_meta.json" 2>/dev/null
export CARGO_NET_OFFLINE=true RUST_BACKTRACE=0
[ "$P" = C20 ] && export RUSTFLAGS="--cfg patronus_verif"
rf=$(grep -o '"demo_needs_rustflags": *"[^"]*"' "$M/meta.json" | cut -d'"' -f4); [ -n "$rf" ] && export RUSTFLAGS="$rf"
cd "$R" && git checkout -q -- . && git clean -fdq patronus/tests patronus-dse/tests patronus-egraphs/tests 2>/dev/null
crate=$(grep -o '"demo_crate": *"[^"]*"' "$M/meta.json" | cut -d'"' -f4); [ -n "$crate" ] || crate=patronus
name=seeded_demo_$(echo "$ID" | tr 'A-Z-' 'a-z_')
mkdir -p "$R/$crate/tests"; cp "$M/demo.rs" "$R/$crate/tests/$name.rs"
log="$S/confirm.log"; : > "$log"
echo "== demo WITHOUT the change" >> "$log"
(cd "$R" && timeout 1800 cargo test --offline -p "$crate" --test "$name" 2>&1 | grep -E "^test result|^test .*(FAILED|ok)$" | head -20) >> "$log"
without=$(grep -c "test result: ok" "$log")
git -C "$R" apply "$M/patch.diff" || { echo "patch does not apply" >> "$log"; exit 1; }
echo "== demo WITH the change" >> "$log"
(cd "$R" && timeout 1800 cargo test --offline -p "$crate" --test "$name" 2>&1 | grep -E "^test result|^test .*(FAILED|ok)$" | head -20) >> "$log"
with_fail=$(grep -c "test result: FAILED" "$log")
rm -f "$R/$crate/tests/$name.rs"
echo "== existing suite WITH the change (failing tests; the 33 solver-less ones are expected)" >> "$log"
(cd "$R" && timeout 3000 cargo test --workspace --no-fail-fast --offline 2>&1 | grep -E "^test .* FAILED$" | grep -v "smt::solver::tests::\|^test pdr\|pdr_" | head -20) >> "$log"
echo "== ./check $P quick against the changed copy" >> "$log"
"$V/tools/try_mutation.sh" "$P" "$R" quick >> "$log" 2>&1
git -C "$R" checkout -q -- .
verdict=$(grep -c "^VIOLATION" "$log")
echo "demo_passes_without=$without demo_fails_with=$with_fail check_violation_lines=$verdict" >> "$log"
tail -4 "$log"
