#!/usr/bin/env python3
"""Regenerate MANIFEST.json from props/Cxx.py (each defines MANIFEST = dict(level_text=..., level_note=..., technique=...))
and tools/not_applicable.json."""
import glob, importlib.util, json, os
root = os.path.dirname(os.path.dirname(os.path.abspath(__file__)))
checks, served = [], []
for f in sorted(glob.glob(os.path.join(root, "props", "C*.py"))):
    pid = os.path.basename(f)[:-3]
    spec = importlib.util.spec_from_file_location("p_" + pid, f)
    mod = importlib.util.module_from_spec(spec)
    spec.loader.exec_module(mod)
    m = getattr(mod, "MANIFEST", None)
    if not m:
        continue
    served.append(pid)
    checks.append({
        "property_id": pid,
        "quick_cmd": "./check %s quick" % pid,
        "thorough_cmd": "./check %s thorough" % pid,
        "evidence_file": "evidence/%s.json" % pid,
        "replay_cmd_template": "./check %s quick --replay {path}" % pid,
        "engine": "coq",
        "level_claimed": {"category": m.get("category", "proof"), "text": m["level_text"], "design_ref": "DESIGN.md section 5 " + pid},
        "level_note": m["level_note"],
        "technique": m.get("technique", "machine-checked proof in Coq about a Gallina model + extracted-model/implementation correspondence check"),
    })
na_path = os.path.join(root, "tools", "not_applicable.json")
na = json.load(open(na_path)) if os.path.exists(na_path) else []
na = [x for x in na if x["property_id"] not in served]
man = {
    "version": 1,
    "setup_cmd": "./setup.sh",
    "hooks": {
        "guard": "patronus_verif",
        "enable": "RUSTFLAGS=\"--cfg patronus_verif\" (set by ./check and ./setup.sh when they build /verif/harness against /repo by path dependency)",
        "baseline_off_cmd": "cd /repo && cargo test --workspace --no-fail-fast --offline",
        "source_commits": json.load(open(os.path.join(root, "tools", "hook_commits.json"))) if os.path.exists(os.path.join(root, "tools", "hook_commits.json")) else [],
        "add_only": True,
    },
    "engines": [
        {"name": "coq", "path": "coq/", "serves_properties": served, "kind_free_text": "Rocq/Coq 8.16.1 development: Spec (SMT-LIB / system semantics), Model (Gallina models of the Rust code), Proofs, Props (pinned theorems + Print Assumptions)"},
        {"name": "driver", "path": "ocaml/", "serves_properties": served, "kind_free_text": "extracted model (ExtrOcamlBasic/ExtrOcamlString only) + OCaml driver evaluating model and property oracle on the cases the implementation ran"},
        {"name": "harness", "path": "harness/", "serves_properties": served, "kind_free_text": "Rust harness: path dependency on /repo crates (rebuilt from the working tree on every run), generators, implementation runner, tree dumper"},
    ],
    "checks": checks,
    "not_applicable": na,
    "notes": "Every check = proof step (full .vo build, Print Assumptions allow-list, forbidden-word scan) + correspondence step (extracted model vs implementation on the same generated cases) + property oracle. Properties not yet claimed are listed under not_applicable with the reason; see DESIGN.md.",
}
json.dump(man, open(os.path.join(root, "MANIFEST.json"), "w"), indent=1)
print("MANIFEST.json: %d checks, %d not_applicable" % (len(checks), len(na)))
