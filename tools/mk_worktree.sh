#!/bin/sh
# tools/mk_worktree.sh <name>: a builder worktree of /verif at /root/wt/<name> on branch wt-<name>, with the
# build products of the main tree copied in (compiled .vo files, .build/ocaml, .build/cargo) so that the first
# `make` / `cargo build` there is incremental.  Remove with: git -C /verif worktree remove --force /root/wt/<name>
set -e
V=$(cd "$(dirname "$0")/.." && pwd)
N="$1"
[ -n "$N" ] || { echo "usage: $0 <name>"; exit 2; }
W=/root/wt/$N
mkdir -p /root/wt
git -C "$V" worktree add -q -b "wt-$N" "$W" HEAD
# compiled Coq files next to their sources; build directory (own cargo target dir: .build/cargo)
rsync -a --include="*/" --include="*.vo" --include="*.vos" --include="*.vok" --include="*.glob" --include=".*.aux" --exclude="*" "$V/coq/" "$W/coq/"
mkdir -p "$W/.build"
for d in ocaml cargo; do
  [ -d "$V/.build/$d" ] && cp -a "$V/.build/$d" "$W/.build/$d"
done
[ -f "$V/harness/Cargo.lock" ] && cp "$V/harness/Cargo.lock" "$W/harness/Cargo.lock"
python3 "$W/tools/gen_coqproject.py" >/dev/null
# sources were just checked out (new mtimes): mark every compiled file as newer than its source
find "$W/coq" \( -name '*.vo' -o -name '*.vos' -o -name '*.vok' -o -name '*.glob' \) -exec touch {} +
echo "$W"
