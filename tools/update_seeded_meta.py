#!/usr/bin/env python3
"""Bring seeded/<id>/meta.json up to date from the logs the confirmation / re-check scripts wrote:
   - seeded/<id>/confirm.log  (tools/confirm_mutation.sh: first confirmation, last line demo_passes_without=.. demo_fails_with=.. check_violation_lines=..)
   - seeded/<id>/recheck.log  (tools/recheck_seeded.sh: the same change against the current /repo HEAD and /verif main)
   New ids (second round) get a meta.json built from the agent's own meta (agent_meta.json).
   Prints one table row per id (used for DESIGN.md)."""
import glob, json, os, re, sys
root = os.path.dirname(os.path.dirname(os.path.abspath(__file__)))
notes_path = os.path.join(root, "seeded", "notes.json")
notes = json.load(open(notes_path)) if os.path.exists(notes_path) else {}
rows = []
for d in sorted(glob.glob(os.path.join(root, "seeded", "C*-m*"))):
    sid = os.path.basename(d)
    mp = os.path.join(d, "meta.json")
    am = os.path.join(d, "agent_meta.json")
    agent = json.load(open(am)) if os.path.exists(am) else {}
    if os.path.exists(mp):
        meta = json.load(open(mp))
    else:
        meta = {"id": sid, "property": sid.split("-")[0], "summary": agent.get("summary", ""),
                "needs_to_manifest": agent.get("needs_to_manifest", ""), "files_changed": agent.get("files_changed", []),
                "produced_by": "fresh sub-agent given only the property text and a scratch worktree of /repo (nothing from /verif); later round (2 or 3)"}
    cl = os.path.join(d, "confirm.log")
    if os.path.exists(cl):
        txt = open(cl).read()
        m = re.search(r"demo_passes_without=(\d+) demo_fails_with=(\d+) check_violation_lines=(\d+)", txt)
        summ = re.findall(r"^C\d\d quick: .*$", txt, re.M)
        viol = re.findall(r"^VIOLATION .*$", txt, re.M)
        if m and "confirmed_by_lead" not in meta:
            meta["confirmed_by_lead"] = {
                "how": "tools/confirm_mutation.sh in a scratch worktree of /repo (never /repo itself): demo without the change, demo with the change, whole existing suite with the change, then ./check <Cxx> quick against the changed copy via tools/try_mutation.sh",
                "result_line": m.group(0), "check_summary": summ[-1] if summ else "", "check_verdict": viol[0] if viol else "no VIOLATION"}
    rl = os.path.join(d, "recheck.log")
    if os.path.exists(rl):
        txt = open(rl).read()
        head = re.search(r"== re-check of \S+ against /repo (\w+), /verif (\w+)", txt)
        last = [l for l in txt.splitlines() if l.startswith(sid + " applies=")]
        summ = re.findall(r"^C\d\d quick: .*$", txt, re.M)
        viol = re.findall(r"^VIOLATION .*$", txt, re.M)
        if head and last:
            meta["recheck_at_head"] = {"repo": head.group(1), "verif": head.group(2), "result_line": last[-1][:300],
                                       "check_summary": summ[-1] if summ else "", "check_verdict": viol[0] if viol else "no VIOLATION",
                                       "patch": "patch-head.diff (the same change re-made by hand on the current tree)" if os.path.exists(os.path.join(d, "patch-head.diff")) else "patch.diff"}
    if sid in notes:
        meta["history"] = notes[sid]
    json.dump(meta, open(mp, "w"), indent=1)
    first = meta.get("confirmed_by_lead", {}).get("check_verdict", "?")
    now = meta.get("recheck_at_head", {}).get("check_verdict", "-")
    rl_line = meta.get("recheck_at_head", {}).get("result_line", "")
    rows.append((sid, "caught" if first.startswith("VIOLATION") else ("missed" if first == "no VIOLATION" else first),
                 "caught" if now.startswith("VIOLATION") else ("missed" if now == "no VIOLATION" else now),
                 "no-failing-input-found" if "no-failing-input-found" in (now + first) else "",
                 "applies=no" if "applies=no" in rl_line else ("demo no longer fails" if "demo_fails_with_change=no" in rl_line else "")))
for r in rows:
    print(" | ".join(r))
